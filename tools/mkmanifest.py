#!/usr/bin/env python3
"""Regenerates /verif/MANIFEST.json from the table below (kept in one place so
the manifest, the checks and DESIGN.md do not drift apart)."""
import json
import os

VERIF = os.path.dirname(os.path.dirname(os.path.abspath(__file__)))
PY = '/venv/bin/python'

CHECKS = {
    'C04': dict(
        level='exploration', ref='4 (C04)',
        technique='deterministic simulation: seeded baton-passing thread scheduler over the real '
                  'parallel_utils code, differential oracle against the sequential build',
        text='Seeded search over thread schedules (line-granular pre-emption of lazy_dataset/parallel_utils.py, '
             'optionally core.py, plus every stdlib lock operation) of generated pipelines with a prefetch or '
             'parallel-map stage; every delivered sequence, length and per-epoch repeat is compared with the same '
             'pipeline description built sequentially. Sampling, not proof: a schedule-dependent reordering, loss '
             'or duplication is found only if a sampled schedule exposes it.',
        note='Process-pool backends are in-simulation stubs (thread pool on simulated threads + pickle/dill round '
             'trip); code between two yield points is atomic; schedules are sampled.'),
    'C05': dict(
        level='fault_enumeration', ref='4 (C05)',
        technique='deterministic simulation with fault injection: all consumer stop points enumerated per '
                  'workload under seeded schedules; deadlock and liveness detector of the scheduler',
        text='For each generated workload every stop point k=0..n is executed (close, drop, consumer exception, '
             'reference cycle + scheduled gc, exhaustion, pipeline error) under sampled schedules; the scheduler '
             'reports deadlock (no runnable thread) and no-progress (step cap); the history is checked for live '
             'threads and user code after control returned, and under a consumer-priority shutdown schedule for '
             'computations that were started instead of cancelled.',
        note='Stop points are enumerated, schedules sampled; stub pools as in C04; liveness is bounded (200k yield '
             'points); finalisation is only generated in the consumer thread.'),
    'C06': dict(
        level='fault_enumeration', ref='4 (C06)',
        technique='deterministic simulation with fault injection: every failing position enumerated, exception '
                  'kinds in/out of the caught set, seeded schedules, differential oracle',
        text='Every single failing position (plus pairs and random subsets) of a failing site upstream of or in the '
             'parallel stage is injected under sampled schedules; delivered prefix, omitted examples and the terminal '
             'exception (identity for thread backends) must equal the sequential reference with an independent '
             'per-position catch; independently of that reference, an epoch in which an exception outside the '
             'selected set was raised (by a stage, the mapped function, or iter() of a user-written stage) must not '
             'end as exhausted; C05 cleanliness is checked on the same runs.',
        note='backend=False (serial debugging mode, no background work) and batch(drop_last=True) upstream are not '
             'generated; stub pools compare exceptions by type and arguments.'),
    'C07': dict(
        level='exploration', ref='4 (C07)',
        technique='deterministic simulation: starved / pausing consumer schedules, bound checked over the whole '
                  'recorded history',
        text='Pull / start / deliver events with the simulator\'s global sequence numbers are recorded for datasets '
             'much longer than the buffer under schedules that starve or pause the consumer; the maximum over all '
             'moments of (pulled - delivered) and (started - delivered) is compared with buffer_size+2 and '
             'buffer_size. Probes show that both bounds are reached exactly, so the buffers are driven full.',
        note='Schedules sampled; simple 1:1 pipelines so that pulls, starts and deliveries count the same unit.'),
    'C08': dict(
        level='exploration', ref='4 (C08)',
        technique='deterministic simulation: provenance-tagged examples and instrumented functions at every '
                  'stage; stop points and index accesses as the history; thread simulator for prefetch variants; '
                  'look-ahead invariant checked at every event of the log',
        text='Generated lazy pipelines over sources longer than their total look-ahead are constructed, iterated '
             'to sampled stop points and indexed at every position; the event log must show no call at '
             'construction, at every moment at most the stated look-ahead of evaluated-but-unaccounted examples, '
             'no double evaluation per iteration, source order at the first stage, and for ds[i] exactly the '
             'provenance of the result. Prefetch variants run under the seeded thread scheduler.',
        note='Look-ahead allowance is a conservative sum; two simultaneous iterators are not attributed; '
             'schedules sampled.'),
    'C09': dict(
        level='exploration', ref='4 (C09)',
        technique='deterministic simulation: multi-client history machine (reads by every path, deep in-place '
                  'mutations of held examples and of the original container), prefetch reads under the thread '
                  'simulator, oracle = pristine snapshot',
        text='Seeded histories of 2-3 clients over every storage mode (pickle, copy, wu, memory cache first and later '
             'accesses, eager cache, disk cache): reads by index of either sign, key, iteration, items, slice, copy '
             'and prefetch worker threads are interleaved with deep mutations of held examples and, for the '
             'serialising modes, of the original container; after every step every read must equal the snapshot '
             'taken at construction.',
        note='Deep equality after normalisation; wu lists are not read by negative index (they do not support it, an '
             'indexing matter outside this property).'),
    'C10': dict(
        level='exploration', ref='4 (C10)',
        technique='deterministic simulation with fault injection: history machine against a reference model '
                  '(index -> first computed value, call counters), memory-pressure fault through the '
                  'psutil.virtual_memory seam, prefetch accesses under the thread simulator',
        text='Seeded access histories (index of either sign, key, slice, iteration, items, copies, thread-prefetch '
             'workers, client mutation) over ds.cache() with a fresh-nonce or deterministic upstream; available '
             'memory drops to or below the threshold at any step, also inside a prefetch iteration, optionally '
             'recovering. Every access is judged against the model: frozen values stay frozen and are never '
             'recomputed, uncached accesses compute exactly once and return what the pipeline produced; eager '
             'caching is checked as a snapshot.',
        note='Accesses form a sequence (concurrency only inside one prefetch iteration); after recovery of memory or a '
             'flip inside a prefetch iteration both cached and uncached behaviour are accepted, wrong values never.'),
    'C11': dict(
        level='fault_enumeration', ref='4 (C11)',
        technique='deterministic simulation with fault injection: crash points of a forked cache writer enumerated '
                  '(after every completed access) and sampled (any Python line of core.py / diskcache), lifecycle '
                  'history machine with disk-full and store-error faults, reference model of the directory',
        text='A forked child fills the cache through the real DiskCacheDataset + diskcache + sqlite on a temporary '
             'directory, acknowledges each completed access on a pipe and is killed with os._exit(9) at an enumerated '
             'or sampled line step; the parent reopens with reuse=True and every acknowledged index must be served '
             'with zero upstream calls and every value must be right. Lifecycle histories (open/access/copy/release/'
             'reopen with all reuse/clear combinations, disk nearly full / full, failing stores) are judged against '
             'a model of directory contents, handles and sharing groups.',
        note='Kill granularity is a Python line; a kill inside a C-level sqlite call, power loss and real disk '
             'exhaustion are not simulated; at most one clear=True wrapper is open on the directory at a time.'),
    'C12': dict(
        level='exploration', ref='4 (C12)',
        technique='deterministic simulation: seeded / exhaustive interleaving of the next() calls of 1-3 '
                  'iterators over one dataset object, adversary steps on the global numpy state',
        text='All interleavings (when at most 60, otherwise 16 sampled) of the next() calls of up to three '
             'iterators over one shuffled dataset object, for every shuffle flavour, lengths 0-7, explicit and '
             'global generators, self-zip / self-intersperse; each iterator\'s multiset and the local-shuffle '
             'displacement bound are checked on the recorded outputs. The shared in-place permutation of '
             'ReShuffleDataset is reported as a known finding.',
        note='Single thread: the interleaving of next() calls is the schedule; inputs are pairwise distinct.'),
    'C13': dict(
        level='exploration', ref='4 (C13)',
        technique='deterministic simulation: equal-seeded builds, copies and prefetch variants stepped by a '
                  'seeded operation list with an adversary perturbing the global numpy state; thread simulator '
                  'for the prefetch variants',
        text='Two equal-seeded builds, copy(), copy(freeze=True), prefetch(1,b) and prefetch(w,b) of generated '
             'pipelines with random stages at any depth are iterated for 2-3 epochs, their steps interleaved with '
             'reseeding / advancing the global numpy state; epochs must agree pairwise, frozen variants must repeat, '
             'ordered must reflect reshuffling stages and vars() of every stage must survive copy().',
        note='Sampled op lists and schedules; the copy variant is taken from a fresh build as the property states.'),
    'C14': dict(
        level='fault_enumeration', ref='4 (C14)',
        technique='deterministic fault injection: every failing position enumerated (plus subsets) in '
                  'instrumented user functions; reference = position-by-position evaluation of an independent build',
        text='For generated indexable pipelines below catch(E) every single failing position, pairs and random '
             'subsets are injected with exception kinds inside and outside E (type, tuple, subclass); value and '
             'items() iteration, twice and with early stop; survivors, the position of a foreign exception and its '
             'identity are compared with an independent evaluation; lazy filter, eager filter and '
             'FilterException+catch are compared for equal predicates. No schedule exists here: the fault plan is '
             'the whole search space.',
        note='Failing examples fail deterministically; duplicate keys under key iteration (loud refusal) not generated.'),
    'C19': dict(
        level='exploration', ref='4 (C19)',
        technique='deterministic simulation (weak form): request histories with lifetime, GC and file events as '
                  'the injected faults, reference dict model; no schedule exists in this layer',
        text='Generated database descriptions (1-3 merged parts, aliases possibly only in a later part, extra '
             'top-level keys, invalid duplicates) Dict- and Json-backed are driven by seeded request histories with '
             'hold / drop / gc.collect, client mutation, pickle round trips and rewriting or removing the JSON files '
             'after load; contents and order are compared with a reference dict model, the source dictionaries with '
             'their snapshot, repeated requests by identity.',
        note='Single task: the only nondeterminism is reference lifetime / GC instants and file events, which the '
             'op list fixes; an added empty alias section is not counted as a change of the source.'),
    'C20': dict(
        level='exploration', ref='4 (C20)',
        technique='deterministic simulation: wrapped vs plain pipeline under seeded fault plans, stop points and '
                  '(for thread prefetch) the seeded thread scheduler with a virtual clock; counters checked against '
                  'a reference counter and the event log',
        text='Generated pipelines (single and multi-input stages, optional thread prefetch, injected failures with '
             'and without catch) are observed plain, inside ProfilingDataset and inside an independent reference '
             'counter by full / partial iteration and indexing; observations must agree, the wrapped pipeline object '
             'must be untouched, hit counters must equal the reference counter and, for map stages, the completed '
             'function applications of the event log.',
        note='Counters are compared only for runs whose prefetch iterations ran to the end (look-ahead is schedule '
             'dependent otherwise); lost updates inside one source line are below the simulated granularity.'),
}

NOT_APPLICABLE = {
    'C01': 'pure function of (pipeline program, input): no schedule, clock, fault or interleaving to simulate; '
           'its only nondeterministic combinators (prefetch, parallel map) are decided under C04',
    'C02': 'pure index arithmetic over (program, input, index); the length of prefetching datasets is part of '
           'C04\'s oracle',
    'C03': 'pure key/value alignment over (program, input); items() behind prefetch is part of C04\'s oracle',
    'C15': 'split/shard are a pure function of (n, k, i): nothing to schedule or to fault',
    'C16': 'algebraic equalities between pure sequential pipelines: input generation, not simulation',
    'C17': 'the bucket iterator is a deterministic function of the input sequence and its parameters; nothing '
           'in it blocks, is scheduled or can fail',
    'C18': 'sort/groupby are eager pure functions of the dataset',
}


def main():
    props = [json.loads(l) for l in open(os.path.join(VERIF, 'properties.jsonl'))]
    ids = [p['id'] for p in props]
    checks = []
    for pid in ids:
        if pid not in CHECKS:
            continue
        if not os.path.exists(os.path.join(VERIF, 'dsim', 'props', pid.lower() + '.py')):
            continue
        c = CHECKS[pid]
        checks.append({
            'property_id': pid,
            'quick_cmd': 'timeout 900 %s -m dsim.check %s --tier quick' % (PY, pid),
            'thorough_cmd': 'timeout 7200 %s -m dsim.check %s --tier thorough' % (PY, pid),
            'evidence_file': 'evidence/%s.json' % pid,
            'replay_cmd_template': '%s -m dsim.replay {path}' % PY,
            'engine': 'dsim',
            'level_claimed': {'category': c['level'], 'text': c['text'],
                              'design_ref': 'DESIGN.md section ' + c['ref']},
            'level_note': c['note'],
            'technique': c['technique'],
        })
    claimed = {c['property_id'] for c in checks}
    na = [{'property_id': pid, 'reason': NOT_APPLICABLE[pid]} for pid in ids
          if pid in NOT_APPLICABLE]
    for pid in ids:
        if pid not in claimed and pid not in NOT_APPLICABLE:
            na.append({'property_id': pid,
                       'reason': 'check not built yet in this revision of /verif (planned, see DESIGN.md)'})
    m = {
        'version': 1,
        'setup_cmd': '%s -c "import lazy_dataset, diskcache, psutil, dill, pathos, humanfriendly, numpy" '
                     '&& mkdir -p evidence replays' % PY,
        'hooks': {
            'guard': 'LAZY_DATASET_VERIF',
            'enable': 'no hook is needed: every seam is patched at call time from /verif (DESIGN.md section 0); '
                      'the guard name is reserved and unused',
            'baseline_off_cmd': 'cd /repo && /venv/bin/python -m pytest -ra -q -p no:cacheprovider --timeout=900 '
                                '--continue-on-collection-errors',
            'source_commits': [],
            'add_only': True,
        },
        'engines': [{
            'name': 'dsim', 'path': 'dsim',
            'serves_properties': sorted(claimed),
            'kind_free_text': 'deterministic simulator: baton-passing scheduler for real threads (SimLock / SimThread '
                              'seams, sys.settrace pre-emption), cooperative task stepping, environment fault seams, '
                              'seeded generators, ddmin shrinking, replay files',
        }],
        'checks': checks,
        'not_applicable': na,
        'notes': 'Exit codes of every check: 0 held (KNOWN-FINDING lines allowed), 1 VIOLATION, 2 harness error. '
                 'VERIF_SEED selects the seed; the checks import lazy_dataset from /repo (editable install) and '
                 'refuse to run otherwise.',
    }
    with open(os.path.join(VERIF, 'MANIFEST.json'), 'w') as f:
        json.dump(m, f, indent=1)
        f.write('\n')
    print('MANIFEST.json: %d checks, %d not applicable' % (len(checks), len(na)))


if __name__ == '__main__':
    main()
