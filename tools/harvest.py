#!/venv/bin/python
"""Verify sub-agent mutants and file them under /verif/seeded/.

usage: tools/harvest.py /tmp/seed_C05 [/tmp/seed_C06 ...]
For every mutantN.diff in a seed directory: apply it to a fresh scratch worktree
of /repo HEAD (outside /repo and /verif, removed afterwards), run demoN.py without
and with the change, run the pinned test suite with the change and compare the
passing set with BASELINE.json; if everything is confirmed, copy patch / demo /
notes and a meta.json to /verif/seeded/<property>_<N>/.
"""
import os
import sys
import json
import shutil
import subprocess
import tempfile
import concurrent.futures as cf
import xml.etree.ElementTree as ET

VERIF = os.path.dirname(os.path.dirname(os.path.abspath(__file__)))
STABLE = set(json.load(open('/root/.vp/BASELINE.json'))['stable_pass'])


def sh(cmd, **kw):
    return subprocess.run(cmd, shell=True, capture_output=True, text=True, **kw)


def suite(wt):
    xml = tempfile.mktemp(suffix='.xml')
    env = dict(os.environ, PYTHONPATH=wt)
    env.pop('OMP_NUM_THREADS', None)
    env.pop('MKL_NUM_THREADS', None)
    subprocess.run('timeout 1500 /venv/bin/python -m pytest -q -p no:cacheprovider --timeout=900 '
                   '--continue-on-collection-errors --junitxml=%s' % xml, shell=True, cwd=wt,
                   env=env, stdout=subprocess.DEVNULL, stderr=subprocess.DEVNULL)
    passed = set()
    try:
        for tc in ET.parse(xml).iter('testcase'):
            if not any(ch.tag in ('failure', 'error', 'skipped') for ch in tc):
                passed.add('%s::%s' % (tc.get('classname'), tc.get('name')))
    finally:
        if os.path.exists(xml):
            os.remove(xml)
    return sorted(STABLE - passed), len(passed)


def one(seed_dir, n):
    base = os.path.basename(seed_dir.rstrip('/'))
    prop = base.split('_')[1]
    rnd = int(base.split('_')[0].replace('seed', '') or 1)
    name = '%s_%d' % (prop, n + 2 * (rnd - 1))
    diff = os.path.join(seed_dir, 'mutant%d.diff' % n)
    demo = os.path.join(seed_dir, 'demo%d.py' % n)
    notes = os.path.join(seed_dir, 'notes%d.md' % n)
    wt = tempfile.mkdtemp(prefix='hv_%s_' % name)
    os.rmdir(wt)
    rep = {'name': name, 'property': prop}
    r = sh('git -C /repo worktree add -q --detach %s HEAD' % wt)
    try:
        env = dict(os.environ, PYTHONPATH=wt)
        shutil.copy(demo, os.path.join('/tmp', 'demo_%s.py' % name))
        dpath = os.path.join('/tmp', 'demo_%s.py' % name)
        r0 = subprocess.run('timeout 600 /venv/bin/python %s' % dpath, shell=True, cwd=wt, env=env,
                            capture_output=True, text=True)
        rep['demo_without'] = r0.returncode
        r = sh('git -C %s apply %s' % (wt, diff))
        rep['applies'] = r.returncode == 0
        if not rep['applies']:
            rep['error'] = r.stderr[-300:]
            return rep
        r1 = subprocess.run('timeout 600 /venv/bin/python %s' % dpath, shell=True, cwd=wt, env=env,
                            capture_output=True, text=True)
        rep['demo_with'] = r1.returncode
        rep['demo_tail'] = (r1.stdout + r1.stderr)[-300:]
        missing, npass = suite(wt)
        rep['stable_missing'] = missing
        rep['passed'] = npass
        os.remove(dpath)
        ok = rep['demo_without'] == 0 and rep['demo_with'] != 0 and not missing
        rep['confirmed'] = ok
        if ok:
            out = os.path.join(VERIF, 'seeded', name)
            os.makedirs(out, exist_ok=True)
            shutil.copy(diff, os.path.join(out, 'patch.diff'))
            shutil.copy(demo, os.path.join(out, 'demo.py'))
            if os.path.exists(notes):
                shutil.copy(notes, os.path.join(out, 'notes.md'))
            meta = {
                'property': prop,
                'source': 'sub-agent given only the property text and a scratch worktree',
                'needs_to_manifest': open(notes).read() if os.path.exists(notes) else '',
                'confirmed': {
                    'base_commit': sh('git -C /repo rev-parse --short HEAD').stdout.strip(),
                    'patch_applies': True,
                    'demo_exit_without_change': rep['demo_without'],
                    'demo_exit_with_change': rep['demo_with'],
                    'pinned_suite_with_change': '%d tests pass, all %d stable tests among them'
                                                % (npass, len(STABLE)),
                    'commands': ['git -C <scratch worktree> apply patch.diff',
                                 'PYTHONPATH=<scratch worktree> /venv/bin/python demo.py',
                                 'cd <scratch worktree> && PYTHONPATH=. /venv/bin/python -m pytest -q '
                                 '-p no:cacheprovider --timeout=900 --continue-on-collection-errors'],
                },
                'checks': [prop],
            }
            json.dump(meta, open(os.path.join(out, 'meta.json'), 'w'), indent=1)
        return rep
    finally:
        sh('git -C /repo worktree remove --force %s' % wt)
        shutil.rmtree(wt, ignore_errors=True)


def main(dirs):
    jobs = []
    for d in dirs:
        for n in (1, 2, 3):
            if os.path.exists(os.path.join(d, 'mutant%d.diff' % n)) and \
                    os.path.exists(os.path.join(d, 'demo%d.py' % n)):
                jobs.append((d, n))
    with cf.ThreadPoolExecutor(6) as ex:
        for rep in ex.map(lambda a: one(*a), jobs):
            print(json.dumps({k: v for k, v in rep.items() if k != 'demo_tail'}))


if __name__ == '__main__':
    main(sys.argv[1:])
