#!/usr/bin/env python3
"""Rewrites the table between the QUICK-TABLE markers of DESIGN.md from the
evidence files in /verif/evidence (so the figures in the design document are the
ones the checks measured)."""
import os
import json
import re

VERIF = os.path.dirname(os.path.dirname(os.path.abspath(__file__)))
rows = ['| check | tier | runs | families | distinct non-trivial | wall s | runs/h | fault kinds fired (top) | probes at zero |',
        '|---|---|---|---|---|---|---|---|---|']
for f in sorted(os.listdir(os.path.join(VERIF, 'evidence'))):
    if not f.endswith('.json'):
        continue
    e = json.load(open(os.path.join(VERIF, 'evidence', f)))
    c = e['coverage']
    fired = sorted(c.get('fault_kinds_fired', {}).items(), key=lambda kv: -kv[1])
    top = ', '.join('%s %d' % kv for kv in fired[:5])
    rows.append('| %s | %s | %d | %d | %d | %.0f | %d | %s | %s |' % (
        e['property_id'], e['tier'], c['evaluations'], c.get('families', 0),
        c['distinct_nontrivial'], e['wall_s'], c.get('runs_per_hour', 0), top,
        ', '.join(c.get('probes_stuck_at_zero', [])) or '-'))
p = os.path.join(VERIF, 'DESIGN.md')
s = open(p).read()
s = re.sub(r'<!-- QUICK-TABLE-BEGIN -->.*?<!-- QUICK-TABLE-END -->',
           '<!-- QUICK-TABLE-BEGIN -->\n' + '\n'.join(rows) + '\n<!-- QUICK-TABLE-END -->',
           s, flags=re.S)
open(p, 'w').write(s)
print('\n'.join(rows))
