#!/bin/bash
# Regenerate what is committed from clean runs against /repo itself:
# evidence of every quick check, the table in DESIGN.md, MANIFEST.json; validate both
# against their schemas.  Run on an otherwise idle machine.  usage: tools/finalize.sh
cd "$(dirname "$0")/.."
set -e
tools/run_all.sh quick | tee /tmp/finalize_quick.log
if grep -q "rc=[^0]" /tmp/finalize_quick.log; then echo "A CHECK DID NOT EXIT 0"; exit 1; fi
/venv/bin/python tools/mkdesign_table.py
/venv/bin/python tools/mkmanifest.py
python3-vt - <<'PY'
import json, jsonschema, glob
jsonschema.validate(json.load(open('MANIFEST.json')), json.load(open('/root/.vp/MANIFEST.schema.json')))
sch = json.load(open('/root/.vp/EVIDENCE.schema.json'))
for f in sorted(glob.glob('evidence/C*.json')):
    jsonschema.validate(json.load(open(f)), sch)
print('MANIFEST.json and', len(glob.glob('evidence/C*.json')), 'evidence files are valid')
PY
