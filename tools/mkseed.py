#!/venv/bin/python
"""Prepare scratch worktrees for a round of sub-agent mutants.

usage: tools/mkseed.py <round> <property id> [<property id> ...]
For every property: `git -C /repo worktree add /tmp/seed<round>_<id>`, write
PROPERTY.txt (the property text from properties.jsonl plus the titles of the
mutants already filed under /verif/seeded as an avoid list - the only
information from /verif a sub-agent ever sees) and INSTRUCTIONS.md (from
tools/seed_instructions.md).  The agents' results are verified and filed by
tools/harvest.py, which also removes nothing: remove the worktrees with
`git -C /repo worktree remove --force /tmp/seed<round>_<id>` afterwards.
"""
import os
import re
import sys
import glob
import json
import subprocess

VERIF = os.path.dirname(os.path.dirname(os.path.abspath(__file__)))


def titles(pid):
    out = []
    for d in sorted(glob.glob(os.path.join(VERIF, 'seeded', pid + '_*'))):
        try:
            first = open(os.path.join(d, 'notes.md')).readline().strip()
        except OSError:
            continue
        first = re.sub(r'^#*\s*[Mm]utant\s*\d*\s*[-:]*\s*', '', first)
        if first:
            out.append(first[:200])
    return out


def main():
    rnd = sys.argv[1]
    props = {json.loads(l)['id']: json.loads(l) for l in open(os.path.join(VERIF, 'properties.jsonl'))}
    tmpl = open(os.path.join(VERIF, 'tools', 'seed_instructions.md')).read()
    for pid in sys.argv[2:]:
        p = props[pid]
        d = '/tmp/seed%s_%s' % (rnd, pid)
        subprocess.run(['git', '-C', '/repo', 'worktree', 'add', '-q', '--detach', d, 'HEAD'], check=True)
        used = titles(pid)
        txt = """Property %s: %s

Statement: %s

Quantified over (%s): %s

Why the existing tests cannot settle it: %s

Code it is anchored in: %s; mechanisms: %s

Extra guidance for this round: the following ideas were ALREADY USED by others, do not submit them or close variations: %s. Find genuinely different mechanisms. Particularly welcome: subtle concurrency changes (memory visibility assumptions, lock scope changes, changed order of two statements, replacing a blocking call by a non-blocking one plus retry, Event/Condition misuse), error-path changes, changes in how a stage reacts to an unusual but legal input (empty dataset, single element, numpy scalars, duplicate values, None or falsy examples), changes to a different stage class than the obvious one, and changes split over two cooperating sites.
""" % (pid, p['title'], p['statement'], ', '.join(p['quantifier']['over']), p['quantifier']['text'],
       p['why_tests_cant'], ', '.join(p['anchors']['files']),
       '; '.join(m['name'] for m in p['anchors']['mechanism']),
       '; '.join('(%d) %s' % (i + 1, x) for i, x in enumerate(used)))
        open(os.path.join(d, 'PROPERTY.txt'), 'w').write(txt)
        open(os.path.join(d, 'INSTRUCTIONS.md'), 'w').write(tmpl.replace('@DIR@', d))
        print(d)


if __name__ == '__main__':
    main()
