#!/bin/bash
# Determinism soak: digests of the first N families of every check, computed in
# fresh interpreters under three hash seeds (and, via the normal check run, under
# 16 worker processes); any difference is printed.  usage: tools/soak_determinism.sh [N]
N=${1:-150}
cd "$(dirname "$0")/.."
for p in C04 C05 C06 C07 C08 C09 C10 C11 C12 C13 C14 C19 C20; do
  n=$N; [ $p = C11 ] && n=$((N/10+2))
  a=$(PYTHONHASHSEED=0 timeout 3000 /venv/bin/python -m dsim.check $p --digests $n 2>/dev/null | tail -1 | md5sum)
  b=$(PYTHONHASHSEED=7 timeout 3000 /venv/bin/python -c "import sys; sys.argv=['x','$p','--digests','$n']; from dsim import runner; runner.main()" 2>/dev/null | tail -1 | md5sum)
  c=$(PYTHONHASHSEED=123 timeout 3000 /venv/bin/python -c "import sys; sys.argv=['x','$p','--digests','$n']; from dsim import runner; runner.main()" 2>/dev/null | tail -1 | md5sum)
  if [ "$a" = "$b" ] && [ "$b" = "$c" ]; then echo "$p ok ($n families x 3 hash seeds)"; else echo "$p DIFFERS $a $b $c"; fi
done
