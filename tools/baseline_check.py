#!/venv/bin/python
"""Runs the repository's pinned test command and compares the set of passing
tests with /root/.vp/BASELINE.json (stable_pass).  Exit 0 iff every stable
test still passes."""
import json, subprocess, sys, tempfile, xml.etree.ElementTree as ET
b = json.load(open('/root/.vp/BASELINE.json'))
stable = set(b['stable_pass'])
with tempfile.NamedTemporaryFile(suffix='.xml') as f:
    subprocess.run(['/venv/bin/python', '-m', 'pytest', '-ra', '-q', '-p', 'no:cacheprovider',
                    '--timeout=900', '--continue-on-collection-errors', '--junitxml=' + f.name],
                   cwd='/repo', stdout=subprocess.DEVNULL, stderr=subprocess.DEVNULL)
    t = ET.parse(f.name)
passed = set()
for tc in t.iter('testcase'):
    if not any(ch.tag in ('failure', 'error', 'skipped') for ch in tc):
        passed.add('%s::%s' % (tc.get('classname'), tc.get('name')))
missing = sorted(stable - passed)
print('stable tests: %d, passing now: %d, stable tests no longer passing: %d'
      % (len(stable), len(stable & passed), len(missing)))
for m in missing[:20]:
    print('  MISSING', m)
sys.exit(1 if missing else 0)
