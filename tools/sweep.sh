#!/bin/bash
# seed sweep of every quick check: prints only checks that did not exit 0
# usage: tools/sweep.sh <first seed> <last seed>
cd "$(dirname "$0")/.."
for s in $(seq $1 $2); do
  for p in C04 C05 C06 C07 C08 C09 C10 C11 C12 C13 C14 C19 C20; do
    out=$(VERIF_SEED=$s timeout 1800 /venv/bin/python -m dsim.check $p --tier quick --no-selftest 2>&1)
    rc=$?
    if [ $rc -ne 0 ]; then echo "seed=$s $p rc=$rc"; echo "$out" | grep -E "^VIOLATION|class=|HARNESS" | head -6; fi
  done
  echo "seed $s done"
done
