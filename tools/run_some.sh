#!/bin/bash
# run the given checks once in the given tier: tools/run_some.sh <tier> <check> [<check> ...]
tier=$1; shift
cd "$(dirname "$0")/.."
for p in "$@"; do
  s=$(date +%s)
  out=$(timeout 7200 /venv/bin/python -m dsim.check $p --tier $tier 2>&1)
  rc=$?
  echo "$p rc=$rc $(( $(date +%s) - s ))s :: $(echo "$out" | tail -1)"
  echo "$out" | grep -E "^VIOLATION|^HARNESS-ERROR" | head -5
done
