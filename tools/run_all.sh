#!/bin/bash
# run every quick (or thorough) check once; summary line per check
tier=${1:-quick}
cd "$(dirname "$0")/.."
for p in C04 C05 C06 C07 C08 C09 C10 C11 C12 C13 C14 C19 C20; do
  s=$(date +%s)
  out=$(timeout 6000 /venv/bin/python -m dsim.check $p --tier $tier 2>&1)
  rc=$?
  echo "$p rc=$rc $(( $(date +%s) - s ))s :: $(echo "$out" | tail -1)"
  echo "$out" | grep -E "^VIOLATION|^HARNESS-ERROR" | head -5
done
