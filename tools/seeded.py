#!/venv/bin/python
"""Run the checks against the seeded breaking changes kept under /verif/seeded.

For every /verif/seeded/<name>/ (patch.diff, demo.py, meta.json) the patch is applied
to a scratch git worktree of /repo (outside /repo and /verif, removed afterwards),
the check(s) named in meta.json['checks'] (default: the property it breaks) are run
with VERIF_REPO / PYTHONPATH pointing at that worktree, and the outcome is written to
/verif/seeded/RESULTS.md.  /repo itself is never modified.
usage: tools/seeded.py [name ...] [--tier quick] [--families N]
"""
import os
import sys
import json
import shutil
import subprocess
import tempfile

VERIF = os.path.dirname(os.path.dirname(os.path.abspath(__file__)))
SEEDED = os.path.join(VERIF, 'seeded')


def sh(cmd, **kw):
    return subprocess.run(cmd, shell=True, capture_output=True, text=True, **kw)


def main(argv):
    names = [a for a in argv if not a.startswith('--')]
    tier = 'quick'
    fam = None
    for i, a in enumerate(argv):
        if a == '--tier':
            tier = argv[i + 1]
        if a == '--families':
            fam = argv[i + 1]
    names = [n for n in names if n not in (tier, fam)]
    if not names:
        names = sorted(d for d in os.listdir(SEEDED)
                       if os.path.isdir(os.path.join(SEEDED, d)))
    rows = []
    for name in names:
        d = os.path.join(SEEDED, name)
        meta = json.load(open(os.path.join(d, 'meta.json')))
        wt = tempfile.mkdtemp(prefix='seeded_wt_')
        os.rmdir(wt)
        r = sh('git -C /repo worktree add -q --detach %s HEAD' % wt)
        if r.returncode:
            print(r.stderr)
            return 2
        try:
            r = sh('git -C %s apply %s' % (wt, os.path.join(d, 'patch.diff')))
            if r.returncode:
                # written against an earlier HEAD (a later repair touched neighbouring
                # lines): retry with less context, then with fuzz
                r = sh('git -C %s apply -C1 %s' % (wt, os.path.join(d, 'patch.diff')))
            if r.returncode:
                sh('git -C %s checkout -- .' % wt)
                r = sh('cd %s && patch -p1 -F3 -s --no-backup-if-mismatch < %s'
                       % (wt, os.path.join(d, 'patch.diff')))
            if r.returncode:
                rows.append((name, meta['property'], '-', 'PATCH DOES NOT APPLY', r.stderr.strip()[:80]))
                continue
            for chk in meta.get('checks') or [meta['property']]:
                # evidence / replays of a run against a seeded change go to a
                # scratch directory, never to /verif/evidence
                scratch = tempfile.mkdtemp(prefix='seeded_ev_')
                env = dict(os.environ, VERIF_REPO=wt, PYTHONPATH=wt,
                           VERIF_STOP_AT_FIRST='1',
                           VERIF_EVIDENCE_DIR=os.path.join(scratch, 'evidence'),
                           VERIF_REPLAY_DIR=os.path.join(scratch, 'replays'))
                cmd = '/venv/bin/python -m dsim.check %s --tier %s --no-selftest' % (chk, tier)
                if fam:
                    cmd += ' --families %s' % fam
                r = subprocess.run('timeout 1800 ' + cmd, shell=True, cwd=VERIF, env=env,
                                   capture_output=True, text=True)
                if r.returncode == 2:
                    # stopping at the first violation can stop at one that depends on the
                    # worker's history (process-global state in the change) and does not
                    # reproduce in the parent: run the whole batch instead
                    env.pop('VERIF_STOP_AT_FIRST', None)
                    r = subprocess.run('timeout 1800 ' + cmd, shell=True, cwd=VERIF, env=env,
                                       capture_output=True, text=True)
                classes = sorted({l.split('class=')[1].split(' ')[0]
                                  for l in r.stdout.splitlines() if 'class=' in l})
                verdict = {0: 'MISSED', 1: 'CAUGHT', 2: 'HARNESS-ERROR'}.get(r.returncode, 'rc=%d' % r.returncode)
                summary = r.stdout.strip().splitlines()[-1] if r.stdout.strip() else r.stderr[-200:]
                rows.append((name, meta['property'], chk, verdict, ', '.join(classes) or summary[:100]))
                print(name, chk, verdict, ', '.join(classes))
                shutil.rmtree(scratch, ignore_errors=True)
                # evidence/replays written by these runs belong to the mutant, not to /repo
        finally:
            sh('git -C /repo worktree remove --force %s' % wt)
            shutil.rmtree(wt, ignore_errors=True)
    # merge with earlier results (one entry per seeded change and check)
    store = os.path.join(SEEDED, 'results.json')
    import fcntl
    lock = open(os.path.join(SEEDED, '.results.lock'), 'w')
    fcntl.flock(lock, fcntl.LOCK_EX)        # several instances may run side by side
    allrows = {}
    if os.path.exists(store):
        allrows = json.load(open(store))
    for row in rows:
        allrows['%s/%s' % (row[0], row[2])] = list(row)
    json.dump(allrows, open(store, 'w'), indent=1, sort_keys=True)
    rows = [tuple(allrows[k]) for k in sorted(allrows)]
    with open(os.path.join(SEEDED, 'RESULTS.md'), 'w') as f:
        f.write('# Seeded breaking changes vs. the checks\n\n'
                'Produced by `tools/seeded.py` (tier %s). Each change was written by a sub-agent that\n'
                'saw only the property text and a scratch worktree; it compiles, leaves the pinned\n'
                'suite\'s result unchanged and comes with a demonstration (see each meta.json).\n\n'
                'A change whose own property check answers MISSED is decided by the neighbouring check\n'
                'listed right below it; the note (from its meta.json) says why.\n\n'
                '| seeded change | breaks | check run | outcome | violation classes reported | note |\n'
                '|---|---|---|---|---|---|\n' % tier)
        for row in rows:
            note = ''
            try:
                meta = json.load(open(os.path.join(SEEDED, row[0], 'meta.json')))
                note = (meta.get('note') or '').replace('|', '/').replace('\n', ' ')
                if meta.get('rebased'):
                    note = (note + ' ' if note else '') + 'patch re-applied by hand onto ' + meta['rebased']['onto']
            except Exception:
                pass
            f.write('| %s | %s | %s | %s | %s | %s |\n' % (tuple(row) + (note,)))
    return 0


if __name__ == '__main__':
    sys.exit(main(sys.argv[1:]))
