"""Shared machinery of the thread-simulation properties C04-C07: history
analysis, oracles, outcome assembly and case shrinking for 'par' cases."""
import json
import hashlib

from . import pargen
from . import parrun
from . import workload as W

USER_EVENTS = ('call', 'ret', 'verdict', 'raise')


def desc_hash(desc):
    return hashlib.blake2b(json.dumps(desc, sort_keys=True).encode(),
                           digest_size=6).hexdigest()


def par_stage(desc):
    i = pargen.par_index(desc)
    return desc['stages'][i]


def path_name(desc):
    st = par_stage(desc)
    if st['op'] == 'parmap':
        return 'parmap-%s' % (st.get('backend', 't'),)
    if pargen.is_pool(st):
        return 'prefetch-pool-%s' % (st.get('backend', 't'),)
    return 'prefetch-single'


def compact_events(log, limit=40):
    return [list(e) for e in log[:limit]]


def base_outcome(case, res, extra_key=''):
    st = res['stats']
    nontrivial = st['switches'] > 0 or bool(res['fired'])
    stop = case.get('stop') or {'kind': 'exhaust'}
    key = '%s|%s|%s|%s|%s|%s' % (desc_hash(case['desc']), stop.get('kind'),
                                stop.get('k'), json.dumps(case.get('faults')),
                                st['sig'], extra_key)
    fired = dict(res['fired'])
    fired['stop_' + stop.get('kind', 'exhaust')] = 1
    pol = case['sched'].get('policy')
    fired['policy_' + str(pol)] = 1
    pst = par_stage(case['desc'])
    if pst.get('num'):
        fired['buffer_size_spelling_' + pst['num']] = 1
    if pst.get('alias'):
        fired['backend_alias_thread'] = 1
    if pst.get('batched'):
        fired['batch_map_with_workers'] = 1
    if case.get('via_copy'):
        fired['consumed_through_a_copy'] = 1
    return {
        'violations': [],
        'nontrivial': nontrivial,
        'key': key,
        'fired': fired,
        'probes': {},
        'stats': {'steps': st['steps'], 'switches': st['switches'],
                  'decisions': st['decisions'], 'threads': st['threads'],
                  'now_ms': int(round(st['now'] * 1000)),
                  'clock_jumps': st['clock_jumps'],
                  'timeouts_fired': st.get('timeouts_fired', 0),
                  'path_' + path_name(case['desc']): 1},
        'pairs': [tuple(map(tuple, p)) for p in st['pairs']],
        'digest': parrun.digest_of(res),
        'choices': res['choices'],
        'sample': {'case': case,
                   'result': [{'end': e['end'], 'exc': e['exc'],
                               'delivered': len(e['out'])} for e in res['epochs']],
                   'first_events': compact_events(res['log'])},
    }


def viol(cls, sig, msg):
    return {'cls': cls, 'sig': sig, 'msg': msg}


# ------------------------------------------------------------ hang / build
def check_failure(case, res, out):
    """Deadlock / step cap / build error: reported by every par check."""
    pn = path_name(case['desc'])
    f = res['failure']
    if f is not None:
        sites = sorted({(b['site'][0] if b.get('site') else '?') + ':' +
                        (b.get('on') or 'running') for b in f['blocked'] or []})
        cls = 'deadlock' if f['why'] == 'deadlock' else \
            ('no_progress' if f['why'] == 'step_cap' else 'leaked_thread')
        stop = (case.get('stop') or {}).get('kind', 'exhaust')
        out['violations'].append(viol(
            cls, '%s:%s:%s' % (cls, pn, ','.join(s.split(':')[0] for s in sites)),
            '%s in phase %s on %s (stop=%s); blocked: %s'
            % (f['why'], f['phase'], pn, stop, json.dumps(f['blocked']))))
        return True
    if res['build_error'] and not res['ref']['build_error']:
        out['violations'].append(viol(
            'build_error', 'build_error:%s:%s' % (pn, res['build_error']),
            'building the parallel pipeline raised %s but the sequential one '
            'builds' % res['build_error']))
        return True
    if res['build_error']:
        out['probes']['both_builds_failed'] = 1
        return True
    return False


# --------------------------------------------------------------- C04 / C06
def check_transparent(case, res, out, *, identity=True, calls=True):
    """Delivered sequence (and terminal state) equals the sequential
    reference, epoch by epoch; len agrees."""
    pn = path_name(case['desc'])
    ref = res['ref']
    items = bool(case.get('items'))
    if res['len'] != ref['len']:
        out['violations'].append(viol(
            'len_differs', 'len_differs:%s' % pn,
            'len() is %r, sequential pipeline says %r' % (res['len'], ref['len'])))
    for ep, (p, r) in enumerate(zip(res['epochs'], ref['epochs'])):
        if items and p['end'] == 'refused' and not p['out']:
            out['probes']['items_refused'] = 1
            continue            # loud refusal before the first delivery
        if items and p['end'] == 'refused' and r['end'] == 'refused' and \
                p['out'] == r['out'][:len(p['out'])]:
            # the sequential pipeline itself refuses items() part-way (mixed
            # keyed / unkeyed inputs): a loud refusal after a correct prefix
            out['probes']['items_refused_midstream'] = 1
            continue
        if p['out'] != r['out']:
            n = min(len(p['out']), len(r['out']))
            i = next((j for j in range(n) if p['out'][j] != r['out'][j]), n)
            if items and r['end'] in ('exhausted', 'refused') and p['out'] and \
                    not _is_pair(p['out'][0]):
                out['violations'].append(viol(
                    'items_bare_values', 'items_bare_values:%s' % pn,
                    'items() behind %s yields bare values instead of (key, value) '
                    'pairs: got %s' % (pn, W.short(p['out'][:2]))))
                continue
            kind = 'reordered' if sorted(map(repr, p['out'])) == \
                sorted(map(repr, r['out'])) else \
                ('truncated' if p['out'] == r['out'][:len(p['out'])] else
                 ('extra' if r['out'] == p['out'][:len(r['out'])] else 'wrong'))
            out['violations'].append(viol(
                'output_' + kind, 'output_%s:%s' % (kind, pn),
                'epoch %d: delivered %d examples, sequential %d; first difference '
                'at %d: got %s expected %s' % (
                    ep, len(p['out']), len(r['out']), i,
                    W.short(p['out'][i] if i < len(p['out']) else '<end>'),
                    W.short(r['out'][i] if i < len(r['out']) else '<end>'))))
            continue
        if p['end'] != r['end'] or (p['exc'] or [None])[0] != (r['exc'] or [None])[0] \
                or (p['exc'] and r['exc'] and p['exc'][1:] != r['exc'][1:]):
            if r['end'] == 'error' and p['end'] == 'exhausted':
                cls = 'error_swallowed'
            elif p['end'] == 'error' and r['end'] == 'exhausted':
                cls = 'spurious_error'
            else:
                cls = 'wrong_terminal'
            ek = (r['exc'] or p['exc'] or ['?'])[0]
            out['violations'].append(viol(
                cls, '%s:%s:%s' % (cls, pn, ek),
                'epoch %d: after %d examples the stream ended with %s %s, the '
                'sequential pipeline with %s %s' % (
                    ep, len(p['out']), p['end'], p['exc'], r['end'], r['exc'])))
            continue
        if identity and p['end'] == 'error' and p['exc_same'] is False and \
                p['exc'][0] in W.EXC_KINDS and \
                par_stage(case['desc']).get('backend', 't') in ('t', False):
            out['violations'].append(viol(
                'exception_not_same_object', 'exception_not_same_object:%s' % pn,
                'the consumer received an equal but different exception object'))
    refused = any(p['end'] == 'refused' for p in res['epochs'])
    if len(res['epochs']) != len(ref['epochs']) and not out['violations'] \
            and not refused:
        out['violations'].append(viol(
            'epochs_differ', 'epochs_differ:%s' % pn,
            'ran %d epochs, sequential %d' % (len(res['epochs']), len(ref['epochs']))))


def _is_pair(v):
    return isinstance(v, list) and len(v) == 3 and v[0] == '__tuple__' \
        and isinstance(v[1], str)


def call_multiset(log):
    eps = parrun.split_epochs(log)
    out = []
    for ev in eps:
        c = {}
        for e in ev:
            if e[2] == 'call':
                k = '%s%s' % (e[3], list(e[4]))
                c[k] = c.get(k, 0) + 1
        out.append(c)
    return out


def check_call_counts(case, res, refctx_log, out):
    """Exhaustive, fault-free runs: every user function application of the
    sequential run happens exactly as often in the parallel run."""
    pn = path_name(case['desc'])
    a = call_multiset(res['log'])
    b = call_multiset(refctx_log)
    for ep, (x, y) in enumerate(zip(a, b)):
        if x != y:
            diff = {k: (x.get(k, 0), y.get(k, 0))
                    for k in set(x) | set(y) if x.get(k, 0) != y.get(k, 0)}
            k0 = sorted(diff)[0]
            out['violations'].append(viol(
                'call_count_differs', 'call_count_differs:%s' % pn,
                'epoch %d: %s applied %d times, sequentially %d times (%d '
                'differences)' % (ep, k0, diff[k0][0], diff[k0][1], len(diff))))
            return


# --------------------------------------------------------------------- C05
def check_clean_stop(case, res, out):
    pn = path_name(case['desc'])
    stop = case.get('stop') or {'kind': 'exhaust'}
    # pathos ('mp') keeps its pool alive by design (its context manager exit
    # is a no-op); the stub's threads stand for pool processes.  For that
    # backend only consumer-initiated stops, where the adapter's terminate()
    # runs, are required to leave nothing behind.
    pathos = par_stage(case['desc']).get('backend', 't') == 'mp'
    for ep, (rec, ev) in enumerate(zip(res['epochs'], parrun.split_epochs(res['log']))):
        # ... and 'throw' is not GeneratorExit: the adapters' terminate() does not run
        stopped = any(e[2] == 'stop' and e[3] != 'throw' for e in ev) and \
            not (pathos and any(e[2] == 'raise' for e in ev))
        if rec['alive_at_return'] and not pathos:
            out['violations'].append(viol(
                'thread_alive_after_return', 'thread_alive_after_return:%s' % pn,
                'background threads %s still alive when control returned to the '
                'consumer (stop=%s)' % (rec['alive_at_return'], stop)))
        ret = next((e[0] for e in ev if e[2] == 'returned'), None)
        if ret is not None and (stopped or not pathos):
            late = [e for e in ev if e[0] > ret and e[2] in USER_EVENTS]
            if late:
                out['violations'].append(viol(
                    'user_code_after_return', 'user_code_after_return:%s' % pn,
                    '%d user-code events after control returned, first: %s'
                    % (len(late), list(late[0]))))
        st = next((e for e in ev if e[2] == 'stop'), None)
        if st is not None and rec['end'] == 'error':
            out['violations'].append(viol(
                'stop_raised', 'stop_raised:%s:%s' % (pn, rec['exc'][0]),
                'stopping the iteration (%s) raised %s' % (stop, rec['exc'])))
        st = next((e for e in ev if e[2] == 'stop'), None)
        if st is not None:
            cancels = sum(1 for e in ev if e[2] == 'fut_cancel' and e[3])
            if cancels:
                out['probes']['future_cancelled_while_pending'] = 1
            if any(e[2] == 'call' and e[0] > st[0] for e in ev):
                out['probes']['user_code_between_stop_and_return'] = 1
            if stop.get('k') == 0:
                out['probes']['stop_before_first_example'] = 1
        if st is not None and case.get('strict_cancel'):
            if stop['kind'] == 'cycle_gc':
                # the iterator is only finalised by the scheduled gc.collect()
                st = next((e for e in ev if e[2] == 'gc'), st)
            _check_strict_cancel(case, ev, st, pn, out, res)


def _check_strict_cancel(case, ev, st, pn, out, res):
    """Consumer-priority shutdown: computations starting after the stop must
    belong to a future that was already RUNNING (pool paths); at most one may
    start on the single-thread path.

    Cancellation is not atomic: if the consumer had to wait for an internal
    lock held by a parked worker (or, in an edited schedule, was runnable but
    not chosen) after the stop, workers legitimately ran in that window and
    futures that turned RUNNING after that moment are excused.  Blocking in
    join() is not such an excuse: by then everything pending must have been
    cancelled."""
    s = st[0]
    excuse_from = None
    for seq, phase, what in res.get('main_blocks') or ():
        if seq >= s and what == 'lock':
            excuse_from = seq if excuse_from is None else min(excuse_from, seq)
    for seq, phase in res.get('main_yields') or ():
        if seq >= s:
            excuse_from = seq if excuse_from is None else min(excuse_from, seq)
    if excuse_from is not None:
        out['probes']['consumer_waited_for_worker_lock_during_shutdown'] = 1
    pool = pargen.is_pool(par_stage(case['desc']))
    if pool:
        last_running = {}
        bad = []
        for e in ev:
            if e[2] == 'fut_running':
                last_running[e[1]] = e[0]
            elif e[2] == 'call' and e[0] > s:
                if e[1] == 0:
                    bad.append(e)
                else:
                    r = last_running.get(e[1])
                    if r is None or (r > s and (excuse_from is None or r < excuse_from)):
                        bad.append(e)
        if bad:
            out['violations'].append(viol(
                'uncancelled_work_started', 'uncancelled_work_started:%s' % pn,
                '%d computations that had not started when the consumer stopped '
                'were executed instead of cancelled, first: %s'
                % (len(bad), list(bad[0]))))
    else:
        first_stage = case['desc']['stages'][0]['id']
        n = sum(1 for e in ev if e[2] == 'call' and e[0] > s and e[3] == first_stage)
        if n > 1 and not (res.get('main_yields') and
                          any(q >= s for q, _ in res['main_yields'])):
            out['violations'].append(viol(
                'uncancelled_work_started', 'uncancelled_work_started:%s' % pn,
                '%d examples were pulled after the consumer stopped (at most one '
                'can be in flight)' % n))


# --------------------------------------------------------------------- C07
def check_read_ahead(case, res, out):
    desc = case['desc']
    pn = path_name(desc)
    pi = pargen.par_index(desc)
    st = desc['stages'][pi]
    b = st['b']
    pull_stage = desc['stages'][pi - 1]['id']
    pool = pargen.is_pool(st)
    start_stage = st['id'] if st['op'] == 'parmap' else pull_stage
    caught = W.catch_spec_types(st.get('catch')) if st.get('catch') else ()
    for ep, ev in enumerate(parrun.split_epochs(res['log'])):
        pulled = started = delivered = 0
        mp = ms = 0
        where_p = where_s = None
        for e in ev:
            k = e[2]
            if k == 'call':
                if e[3] == pull_stage:
                    pulled += 1
                    if pulled - delivered > mp:
                        mp, where_p = pulled - delivered, e[0]
                if pool and e[3] == start_stage:
                    started += 1
                    if started - delivered > ms:
                        ms, where_s = started - delivered, e[0]
            elif k == 'deliver':
                delivered += 1
            elif k == 'raise' and caught and issubclass(W.EXC_KINDS[e[5]], caught):
                # an example the stage drops: finished, and never delivered.  It is
                # counted as consumed from the moment it failed (lenient: it may
                # still occupy a buffer slot until the consumer gets there)
                delivered += 1
                out['probes']['dropped_example_in_read_ahead_accounting'] = 1
        out['stats']['max_pull_ahead_b%+d' % (mp - b)] = \
            out['stats'].get('max_pull_ahead_b%+d' % (mp - b), 0) + 1
        if mp == b + 2:
            out['probes']['pull_bound_b_plus_2_reached'] = 1
        if pool and ms == b:
            out['probes']['start_bound_b_reached'] = 1
        if mp > b + 2:
            out['violations'].append(viol(
                'read_ahead_exceeds_bound', 'read_ahead_exceeds_bound:%s:pulled' % pn,
                'epoch %d: %d source examples pulled beyond those delivered at '
                'event %s; bound is buffer_size+2 = %d' % (ep, mp, where_p, b + 2)))
        if pool and ms > b:
            out['violations'].append(viol(
                'read_ahead_exceeds_bound', 'read_ahead_exceeds_bound:%s:started' % pn,
                'epoch %d: %d function applications started beyond those delivered '
                'at event %s; bound is buffer_size = %d' % (ep, ms, where_s, b)))


# ----------------------------------------------- bounded systematic schedules
def one_preemption_cases(base_case, run_case, max_cases=900):
    """All schedules of base_case with exactly one forced context switch.

    The baseline is the non-preemptive schedule (choices=[]: a thread runs until
    it blocks or ends, then the lowest-numbered runnable thread continues).  Up
    to a forced switch the execution is identical to the baseline, so 'switch to
    candidate c at decision i' is well defined for every decision i of the
    baseline; after the switch the run continues non-preemptively.  Candidates
    are the runnable threads plus the timed waiters (timeouts) at that decision.
    Returns the baseline case followed by one case per (i, c), c in 0..2 (at
    most three simulated threads are runnable in the tiny workloads used)."""
    base = json.loads(json.dumps(base_case))
    base['sched'] = {'policy': 'random', 'seed': 0, 'choices': []}
    if base.pop('rel', None):
        base['sched']['rel'] = 1
    res = run_case(base)
    d = res['stats']['decisions']
    cases = [base]
    for i in range(d):
        for c in range(3):
            k = json.loads(json.dumps(base))
            k['sched']['choices'] = [[i, c]]
            cases.append(k)
            if len(cases) >= max_cases:
                return cases
    return cases


def two_preemption_cases(base_case, run_case, max_cases=40000):
    """All schedules with at most two forced switches (thorough tier, tiniest
    workloads only): for every one-switch schedule the decisions after the
    switch are enumerated again."""
    first = one_preemption_cases(base_case, run_case, max_cases)
    cases = list(first)
    for k in first[1:]:
        (i, c), = k['sched']['choices']
        res = run_case(k)
        d = res['stats']['decisions']
        for j in range(i + 1, d):
            for c2 in range(3):
                k2 = json.loads(json.dumps(k))
                k2['sched']['choices'] = [[i, c], [j, c2]]
                cases.append(k2)
                if len(cases) >= max_cases:
                    return cases
    return cases


TINY = [
    # (n, stages after map u0)
    (2, [{'op': 'prefetch', 'w': 1, 'b': 1, 'backend': 't'}]),
    (3, [{'op': 'prefetch', 'w': 1, 'b': 1, 'backend': 't'}]),
    (3, [{'op': 'prefetch', 'w': 1, 'b': 2, 'backend': 't'}]),
    (2, [{'op': 'prefetch', 'w': 2, 'b': 2, 'backend': 't'}]),
    (3, [{'op': 'prefetch', 'w': 2, 'b': 2, 'backend': 't'}]),
    (2, [{'op': 'parmap', 'id': 'p', 'w': 1, 'b': 1, 'backend': 't'}]),
    (3, [{'op': 'parmap', 'id': 'p', 'w': 2, 'b': 2, 'backend': 't'}]),
    (2, [{'op': 'prefetch', 'w': 1, 'b': 1, 'backend': 't', 'catch': True}]),
    (2, [{'op': 'prefetch', 'w': 2, 'b': 2, 'backend': 'dill_mp'}]),
    (2, [{'op': 'prefetch', 'w': 2, 'b': 2, 'backend': 'mp'}]),
    (2, [{'op': 'prefetch', 'w': 2, 'b': 2, 'backend': 'multiprocessing'}]),
]


def tiny_desc(rng):
    n, st = TINY[rng.randrange(len(TINY))]
    return {'source': {'kind': rng.choice(['list', 'dict']), 'n': n},
            'stages': [{'op': 'map', 'id': 'u0'}] + json.loads(json.dumps(st))}


# ------------------------------------------------------------------ shrink
def _valid(desc):
    try:
        return pargen.abs_eval(desc) is not None
    except Exception:
        return False


def shrink_par(case):
    """Yield simpler variants of a par case (still valid programs)."""
    def clone():
        return json.loads(json.dumps(case))
    desc = case['desc']
    pi = pargen.par_index(desc)
    # fewer faults
    for i in range(len(case.get('faults') or [])):
        c = clone()
        del c['faults'][i]
        yield c
    # remove one non-parallel stage (keep stage 0 = 'u0')
    for i in range(len(desc['stages']) - 1, 0, -1):
        if i == pi:
            continue
        c = clone()
        st = c['desc']['stages'][i]
        if st['op'] == 'fragment':
            continue
        if st['op'] == 'unbatch' and i > 0 and c['desc']['stages'][i - 1]['op'] == 'fragment':
            del c['desc']['stages'][i - 1:i + 1]
        else:
            del c['desc']['stages'][i]
        if _valid(c['desc']):
            yield c
    # smaller source
    n = desc['source']['n']
    for m in sorted({n // 2, n - 1}):
        if 0 <= m < n:
            c = clone()
            c['desc']['source']['n'] = m
            for st in c['desc']['stages']:
                if st['op'] == 'zip':
                    st['n'] = m
            if c.get('faults'):
                c['faults'] = [f for f in c['faults'] if f['pos'] < m or f['pos'] >= 100]
            if (c.get('stop') or {}).get('k', 0) > m:
                c['stop']['k'] = m
            if _valid(c['desc']):
                yield c
    st = desc['stages'][pi]
    if st['w'] > 1:
        c = clone()
        c['desc']['stages'][pi]['w'] -= 1
        if _valid(c['desc']):
            yield c
    if st['b'] > st['w']:
        c = clone()
        c['desc']['stages'][pi]['b'] -= 1
        if _valid(c['desc']):
            yield c
    if st.get('backend', 't') not in ('t',):
        c = clone()
        c['desc']['stages'][pi]['backend'] = 't'
        if _valid(c['desc']):
            yield c
    if case.get('prelude'):
        c = clone()
        c.pop('prelude')
        yield c
    if case.get('epochs', 1) > 1:
        c = clone()
        c['epochs'] = 1
        yield c
    if case.get('items'):
        c = clone()
        c['items'] = False
        yield c
    stop = case.get('stop')
    if stop and stop.get('k', 0) > 0:
        c = clone()
        c['stop']['k'] -= 1
        yield c
    if case.get('think_max'):
        c = clone()
        c['think_max'] = 0
        yield c
    if case.get('cost_seed') is not None:
        c = clone()
        c['cost_seed'] = None
        yield c
    if case.get('trace', ['parallel_utils']) != ['parallel_utils']:
        c = clone()
        c['trace'] = ['parallel_utils']
        yield c
    if case['sched'].get('policy') != 'random' and case['sched'].get('choices') is None:
        c = clone()
        c['sched'] = {'policy': 'random', 'seed': case['sched'].get('seed', 0)}
        yield c
    if case['sched'].get('choices') is None:
        for s in range(1, 4):
            c = clone()
            c['sched']['seed'] = s
            if c['sched'] != case['sched']:
                yield c
                break


COMPONENTS = {
    'real': ['lazy_dataset.parallel_utils.single_thread_prefetch',
             'lazy_dataset.parallel_utils.lazy_parallel_map (all adapter closures)',
             'lazy_dataset.core (PrefetchDataset, ParMapDataset and every stage of '
             'the generated pipeline)',
             'CPython threading.Condition/Semaphore/Event/RLock(py), queue.Queue, '
             'queue._PySimpleQueue, concurrent.futures.Future and ThreadPoolExecutor'],
    'replaced_by_simulator': ['_thread lock allocation (SimLock)', 'threading.Thread '
                              '(SimThread: real OS thread, scheduled by the simulator)',
                              'time.sleep/monotonic/perf_counter (virtual clock)'],
    'stub': ['concurrent.futures.ProcessPoolExecutor (thread pool on simulated '
             'threads + pickle round trip)',
             'multiprocessing.Pool (same, apply_async/terminate contract)',
             'pathos.multiprocessing.ProcessPool (same, apipe/terminate, dill)'],
}

ASSUMPTIONS = [
    'pre-emption only at source lines of the traced repository files and at every '
    'lock operation of the stdlib primitives; code between two yield points is atomic',
    'process-pool backends are stubs: their own scheduling, pickling limits beyond '
    'pickle/dill round trips and OS-level termination are not modelled',
    'sampled schedules: a clean batch is evidence, not proof',
]
