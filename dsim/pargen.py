"""Seeded generator of pipeline descriptions with one parallel stage.

Validity of a generated program is decided by a small abstract interpreter over
provenance tuples kept here (not by asking the library), so that a broken
library cannot silently shrink the generated space.
"""
import numpy as np

BACKENDS_POOL = ['t', 'concurrent_mp', 'dill_mp', 'multiprocessing', 'mp']


class Abs:
    """Abstract dataset: provenance of each element, in order (None when the
    order is random per epoch), plus the capabilities the stages forward."""

    def __init__(self, elems, n, indexable, findexable, sized, items, keys):
        self.elems = elems
        self.n = n                  # length when sized (else None)
        self.indexable = indexable
        self.findexable = findexable  # indexable after copy(freeze=True)
        self.sized = sized
        self.items = items          # supports __iter__(with_key=True)
        self.keys = keys            # supports .keys()

    def clone(self, **kw):
        a = Abs(self.elems, self.n, self.indexable, self.findexable,
                self.sized, self.items, self.keys)
        for k, v in kw.items():
            setattr(a, k, v)
        return a


def abs_source(src, offset=0):
    n = src['n']
    d = src.get('kind', 'list') == 'dict'
    # kind 'user': a user-written dataset (length, integer index, plain iteration)
    if src.get('kind') == 'user_nocopy':
        # ... that cannot be copied: nothing that freezes / copies the pipeline works
        return Abs([(offset + i,) for i in range(n)], n, True, False, True, False, False)
    return Abs([(offset + i,) for i in range(n)], n, True, True, True, d, d)


def verdict(ids, mod, rem):
    return (ids[0] % mod != rem) if ids else True


def abs_apply(a, st):
    """Return the abstract result of applying st to a, or None if invalid."""
    op = st['op']
    if op == 'falsy':
        # selected examples lose their provenance (they become None, 0, ...)
        e = None if a.elems is None else \
            [() if (x and x[0] % st['mod'] == st['rem']) else x for x in a.elems]
        return a.clone(elems=e)
    if op in ('map', 'fresh', 'cache', 'profile'):
        if op == 'cache' and not a.indexable:
            return None
        return a.clone()
    if op == 'slice':
        if not a.indexable or a.elems is None:
            return None
        sl = st['sl']
        idx = list(range(a.n))[slice(sl.get('start'), sl.get('stop'), sl.get('step'))] \
            if isinstance(sl, dict) else [i if i >= 0 else i + a.n for i in sl]
        if any(i < 0 or i >= a.n for i in idx):
            return None
        if not isinstance(sl, dict) and len(sl) == 0:
            return None
        if len(set(idx)) != len(idx):
            # an index list with repeats: keys repeat, and everything that needs
            # unique keys later (items() behind a prefetch or a catch, keys() of a
            # concatenation) refuses loudly
            return a.clone(elems=[a.elems[i] for i in idx], n=len(idx), items=False,
                           keys=False)
        return a.clone(elems=[a.elems[i] for i in idx], n=len(idx))
    if op == 'batch':
        bs = st['bs']
        if a.elems is not None:
            e = [sum(a.elems[i:i + bs], ()) for i in range(0, len(a.elems), bs)]
            if st.get('drop_last') and e and len(a.elems) % bs:
                e = e[:-1]
            n = len(e) if a.sized else None
        else:
            e = None
            n = None
            if a.sized:
                n = a.n // bs if st.get('drop_last') else -(-a.n // bs)
        return a.clone(elems=e, n=n, items=False, keys=False)
    if op == 'fragment':
        return a.clone()
    if op == 'unbatch':
        # only generated directly after 'fragment' (elements are lists)
        parts = st.get('parts', 2)
        e = None if a.elems is None else [x for x in a.elems for _ in range(parts)]
        return a.clone(elems=e, n=None, indexable=False, findexable=False,
                       sized=False, items=False, keys=False)
    if op == 'filter':
        if st.get('lazy', True):
            e = None if a.elems is None else \
                [x for x in a.elems if verdict(x, st['mod'], st['rem'])]
            return a.clone(elems=e, n=None, indexable=False, findexable=False,
                           sized=False, keys=False)
        if not a.indexable or a.elems is None:
            return None
        e = [x for x in a.elems if verdict(x, st['mod'], st['rem'])]
        return a.clone(elems=e, n=len(e))
    if op == 'items':
        if not a.items:
            return None
        return a.clone()
    if op == 'shuffle':
        if not a.indexable or a.elems is None:
            return None
        if st.get('shared'):
            # order drawn from a generator shared with other stages: a
            # permutation the abstract interpreter does not predict
            return a.clone(elems=list(a.elems))
        perm = np.arange(a.n)
        np.random.RandomState(st['seed']).shuffle(perm)
        return a.clone(elems=[a.elems[int(p)] for p in perm])
    if op == 'reshuffle':
        if not a.indexable:
            return None
        return a.clone(elems=None, indexable=False, keys=False)
    if op == 'local_shuffle':
        return a.clone(elems=None, indexable=False, findexable=False, keys=False)
    if op == 'tile':
        if not a.sized:
            return None
        r = st.get('reps', 2)
        e = None if a.elems is None else a.elems * r
        # keys repeat: everything that looks keys up refuses loudly
        return a.clone(elems=e, n=a.n * r, keys=False, items=False)
    if op == 'cycle':
        if a.sized:
            if not a.n:
                return None
        elif not a.elems:
            # without a length the input must be known to be non-empty
            return None
        return a.clone(elems=None, n=None, sized=False, findexable=False)
    if op == 'apply':
        if not a.indexable or not a.sized:
            return None
        return a.clone(elems=None, n=None, indexable=False, findexable=False,
                       sized=False, keys=False)
    if op == 'sort':
        if not a.indexable or a.elems is None:
            return None
        kv = [((x[0] * 7) % 5 if x else 0, i) for i, x in enumerate(a.elems)]
        order = [i for _, i in sorted(kv, reverse=bool(st.get('reverse')))]
        return a.clone(elems=[a.elems[i] for i in order])
    if op == 'concat':
        if not a.sized:
            return None
        b = abs_source({'kind': st.get('kind', 'list'), 'n': st['n']},
                       st.get('offset', 100))
        e = None if a.elems is None else a.elems + b.elems
        uniq = _keys_disjoint(a, b)
        return a.clone(elems=e, n=a.n + b.n,
                       items=a.items and b.items and uniq, keys=a.keys and b.keys and uniq)
    if op == 'userstage':
        # a user-written pass-through stage without keys / items support
        return a.clone(items=False, keys=False)
    if op == 'keyzip':
        # key_zip with a partner that has the same keys in another order
        if not (a.keys and a.indexable and a.sized and a.n and a.elems is not None):
            return None
        if any(not x for x in a.elems) or len({x[0] for x in a.elems}) != len(a.elems):
            return None
        off = st.get('offset', 300)
        return a.clone(elems=[x + (off + x[0],) for x in a.elems])
    if op == 'intersperse':
        if not a.sized or not a.n or not st['n']:
            return None
        b = abs_source({'kind': st.get('kind', 'list'), 'n': st['n']},
                       st.get('offset', 100))
        e = None
        if a.elems is not None:
            order = sorted([((i + 1) / ln, d, i) for d, ln in enumerate((a.n, b.n))
                            for i in range(ln)])
            e = [(a.elems, b.elems)[d][i] for _, d, i in order]
        uniq = _keys_disjoint(a, b)
        return a.clone(elems=e, n=a.n + b.n,
                       items=a.items and b.items and uniq, keys=a.keys and b.keys and uniq)
    if op == 'zip':
        if not a.sized or a.n != st['n'] or a.n == 0:
            return None
        b = abs_source({'kind': 'list', 'n': st['n']}, st.get('offset', 200))
        e = None if a.elems is None else \
            [x + y for x, y in zip(a.elems, b.elems)]
        return a.clone(elems=e, items=False, keys=False)
    if op == 'catch':
        if not (a.sized and a.findexable):
            return None
        return a.clone(n=None, indexable=False, findexable=False, sized=False,
                       keys=False)
    if op == 'prefetch':
        pool = is_pool(st)
        if st['b'] < st['w'] or st['b'] < 1:
            return None
        if pool and not (a.sized and a.findexable):
            return None
        if st.get('catch') and not (a.sized and a.findexable):
            return None
        sized = a.sized and not st.get('catch')
        return a.clone(indexable=False, findexable=False, sized=sized,
                       n=a.n if sized else None, keys=False,
                       items=False)
    if op == 'parmap':
        if st['b'] < st['w'] or st['b'] < 1:
            return None
        return a.clone()
    raise ValueError(op)


def _keys_disjoint(a, b):
    """keys are 'k<first source id>': partners whose id ranges overlap have
    common keys, and keys() / items() of the combination refuse loudly"""
    if a.elems is None or b.elems is None:
        return True
    fa = {x[0] for x in a.elems if x}
    fb = {x[0] for x in b.elems if x}
    return not (fa & fb)


def abs_eval(desc):
    a = abs_source(desc['source'])
    for st in desc['stages']:
        a = abs_apply(a, st)
        if a is None:
            return None
    return a


def is_pool(st):
    if st['op'] == 'parmap':
        return True
    # backend='thread' is the documented alias of 't' in lazy_parallel_map; with
    # one worker it selects the pool path (only the exact spelling 't' takes the
    # single-thread fallback)
    return not (st['w'] == 1 and st.get('backend', 't') == 't' and not st.get('alias'))


# ------------------------------------------------------------- generation
def _rand_slice(rng, n):
    r = rng.random()
    if r < 0.5 or n == 0:
        step = rng.choice([None, 1, 2, -1, 3, -2])
        start = rng.choice([None, 0, 1, -2, n // 2])
        stop = rng.choice([None, n, n - 1, -1, n // 2 + 1])
        return {'start': start, 'stop': stop, 'step': step}
    k = rng.randrange(1, n + 2)
    return [rng.randrange(-n, n) for _ in range(k)]


def gen_upstream_stage(rng, a, sid, single_path):
    """Propose one upstream stage for abstract input a (may be invalid)."""
    ops = ['map', 'map', 'slice', 'batch', 'items', 'shuffle', 'sort', 'cache',
           'concat', 'zip', 'filter_eager', 'reshuffle', 'intersperse', 'keyzip']
    if single_path:
        ops += ['filter_lazy', 'local_shuffle', 'fragment_unbatch']
    op = rng.choice(ops)
    n = a.n if a.n is not None else 4
    if op == 'map':
        return [{'op': 'map', 'id': sid}]
    if op == 'slice':
        return [{'op': 'slice', 'sl': _rand_slice(rng, n)}]
    if op == 'batch':
        return [{'op': 'batch', 'bs': rng.randrange(1, 4),
                 'drop_last': rng.random() < 0.3}]
    if op == 'items':
        return [{'op': 'items'}]
    if op == 'shuffle':
        return [{'op': 'shuffle', 'seed': rng.randrange(1000)}]
    if op == 'reshuffle':
        return [{'op': 'reshuffle', 'seed': rng.randrange(1000)}]
    if op == 'local_shuffle':
        return [{'op': 'local_shuffle', 'seed': rng.randrange(1000),
                 'bs': rng.randrange(1, 5)}]
    if op == 'sort':
        return [{'op': 'sort', 'id': sid, 'reverse': rng.random() < 0.3}]
    if op == 'cache':
        return [{'op': 'cache'}]
    if op == 'concat':
        return [{'op': 'concat', 'n': rng.randrange(1, 4),
                 'kind': 'dict' if a.keys else 'list', 'offset': 100,
                 'map': sid if rng.random() < 0.5 else None}]
    if op == 'keyzip':
        return [{'op': 'keyzip', 'offset': 300, 'map': sid if rng.random() < 0.5 else None}]
    if op == 'intersperse':
        return [{'op': 'intersperse', 'n': rng.choice([n, n, 1, 2, 3]) or 1,
                 'kind': 'dict' if a.keys else 'list', 'offset': 100,
                 'map': sid if rng.random() < 0.5 else None}]
    if op == 'zip':
        return [{'op': 'zip', 'n': n, 'offset': 200,
                 'map': sid if rng.random() < 0.5 else None}]
    if op == 'filter_eager':
        return [{'op': 'filter', 'id': sid, 'lazy': False,
                 'mod': rng.randrange(2, 4), 'rem': rng.randrange(0, 2)}]
    if op == 'filter_lazy':
        return [{'op': 'filter', 'id': sid, 'lazy': True,
                 'mod': rng.randrange(2, 4), 'rem': rng.randrange(0, 2)}]
    if op == 'fragment_unbatch':
        return [{'op': 'fragment', 'id': sid, 'parts': 2},
                {'op': 'unbatch', 'parts': 2}]
    raise ValueError(op)


def _spelling(rng, st):
    """Legal spellings of the same configuration: the alias 'thread', a float
    or numpy buffer size, a fractional buffer size (b - 0.5 holds b examples:
    the code compares `qsize() >= buffer_size`), numpy worker counts."""
    if st.get('backend') == 't' and st['w'] >= 2 and rng.random() < 0.1:
        st['alias'] = True
    r = rng.random()
    if r < 0.06:
        st['num'] = 'float'
    elif r < 0.12 and st['b'] > st['w']:
        st['num'] = 'half'
    elif r < 0.18:
        st['num'] = 'np'


def gen_par_stage(rng, *, kinds=('prefetch', 'parmap'), backends=('t',),
                  max_w=3, max_extra_b=3, catch_p=0.0, single_p=0.35):
    kind = rng.choice(list(kinds))
    if kind == 'parmap':
        w = rng.randrange(1, max_w + 1)
        b = w + rng.randrange(0, max_extra_b + 1)
        st = {'op': 'parmap', 'id': 'p', 'w': w, 'b': b,
              'backend': rng.choice(list(backends))}
        if st['backend'] == 'False':
            st['backend'] = False
        _spelling(rng, st)
        return st
    alias1 = False
    if rng.random() < single_p:
        w, backend = 1, 't'
    else:
        w = rng.randrange(1, max_w + 1)
        backend = rng.choice(list(backends))
        if w == 1 and backend == 't':
            if rng.random() < 0.5:
                w = 2
            else:
                alias1 = True
    b = w + rng.randrange(0, max_extra_b + 1)
    if backend == 'False':
        backend = False
    st = {'op': 'prefetch', 'w': w, 'b': b, 'backend': backend}
    if alias1:
        st['alias'] = True
    _spelling(rng, st)
    # catch_filter_exception ships a local closure to the workers: the
    # pickle-based pools refuse it loudly (cannot pickle), so it is only
    # generated for backends that can serialise closures.
    if rng.random() < catch_p and backend not in ('concurrent_mp', 'multiprocessing'):
        st['catch'] = rng.choice([True, True, 'value', ['filter', 'key'],
                                  'filter_sub'])
    return st


def gen_desc(rng, *, max_n=8, min_n=0, max_up=3, max_down=2, par_kw=None,
             simple=False, source_kind=None, falsy_p=0.0, batched_p=0.0, user_stage_p=0.0,
             tile_p=0.0):
    """Generate a valid description: source, 'u0' map, upstream stages, one
    parallel stage, downstream stages."""
    par_kw = par_kw or {}
    for _attempt in range(200):
        n = rng.randrange(min_n, max_n + 1)
        kind = source_kind or rng.choice(['list', 'dict'])
        desc = {'source': {'kind': kind, 'n': n}, 'stages': [{'op': 'map', 'id': 'u0'}]}
        par = gen_par_stage(rng, **par_kw)
        single = not is_pool(par)
        a = abs_eval(desc)
        nup = 0 if simple else rng.randrange(0, max_up + 1)
        ok = True
        for j in range(nup):
            for _try in range(6):
                sts = gen_upstream_stage(rng, a, 'u%d' % (j + 1),
                                         single or par['op'] == 'parmap')
                for st in sts:
                    # every concatenated / zipped partner gets its own id (and
                    # key) range: duplicate keys are a loud refusal of keys()
                    if st['op'] in ('concat', 'zip', 'intersperse', 'keyzip'):
                        st['offset'] = 100 * (j + 1) + (50 if st['op'] == 'zip' else 0) + \
                            (70 if st['op'] == 'keyzip' else 0)
                b = a
                for st in sts:
                    b = abs_apply(b, st) if b is not None else None
                if b is not None:
                    desc['stages'] += sts
                    a = b
                    break
        if falsy_p and rng.random() < falsy_p:
            # some examples become None / 0 / '' / [] / {} / False right before
            # the parallel stage
            st = {'op': 'falsy', 'id': 'uf', 'mod': rng.randrange(2, 4),
                  'rem': rng.randrange(0, 2),
                  'val': rng.choice(['none', 'none', 'zero', 'empty', 'emptylist',
                                     'emptydict', 'false', 'excobj', 'stopiterobj',
                                     'filterobj'])}
            b = abs_apply(a, st)
            if b is not None:
                desc['stages'].append(st)
                a = b
        if tile_p and rng.random() < tile_p:
            # the very same upstream object several times in one concatenation
            st = {'op': 'tile', 'reps': rng.randrange(2, 4)}
            b = abs_apply(a, st)
            if b is not None:
                desc['stages'].append(st)
                a = b
        if user_stage_p and rng.random() < user_stage_p:
            st = {'op': 'userstage'}
            b = abs_apply(a, st)
            if b is not None:
                desc['stages'].append(st)
                a = b
        if batched_p and par['op'] == 'parmap' and desc['stages'][-1]['op'] == 'batch' \
                and rng.random() < batched_p:
            # batch_map(fn, num_workers=...): the function is applied to every
            # element of every batch, one job per batch
            par['batched'] = True
        b = abs_apply(a, par)
        if b is None:
            continue
        desc['stages'].append(par)
        a = b
        ndown = 0 if simple else rng.randrange(0, max_down + 1)
        for j in range(ndown):
            op = rng.choice(['map', 'batch', 'filter', 'items', 'prefetch1'])
            if op == 'map':
                st = {'op': 'map', 'id': 'd%d' % j}
            elif op == 'batch':
                st = {'op': 'batch', 'bs': rng.randrange(1, 4),
                      'drop_last': rng.random() < 0.3}
            elif op == 'filter':
                st = {'op': 'filter', 'id': 'd%d' % j, 'lazy': True,
                      'mod': rng.randrange(2, 4), 'rem': rng.randrange(0, 2)}
            elif op == 'items':
                st = {'op': 'items'}
            else:
                st = {'op': 'prefetch', 'w': 1, 'b': rng.randrange(1, 4),
                      'backend': 't'}
            b = abs_apply(a, st)
            if b is not None:
                desc['stages'].append(st)
                a = b
        if not ok:
            continue
        return desc, a
    raise RuntimeError('could not generate a valid description')


def par_index(desc):
    """Index of the (first) generated parallel stage."""
    for i, st in enumerate(desc['stages']):
        if st['op'] == 'parmap' or (st['op'] == 'prefetch' and i > 0):
            return i
    return None


POLICIES = [
    {'policy': 'random'},
    {'policy': 'sticky', 'params': {'p': 0.5}},
    {'policy': 'sticky', 'params': {'p': 0.9}},
    {'policy': 'pct', 'params': {'d': 2, 'horizon': 300}},
    {'policy': 'pct', 'params': {'d': 3, 'horizon': 800}},
    {'policy': 'starve', 'params': {'victim': 'consumer', 'p': 0.6}},
    {'policy': 'starve', 'params': {'victim': 'worker', 'p': 0.6}},
]


def gen_sched(rng, policies=None):
    p = dict(rng.choice(policies or POLICIES))
    p['seed'] = rng.randrange(1 << 30)
    if rng.random() < 0.3:
        p['rel'] = 1        # pre-emption points also right after every lock release
    return p
