"""CLI: python -m dsim.replay <replay file>  -- re-executes a recorded violation
in a fresh process.  Exit 1 (and a VIOLATION line) if it reproduces with the same
violation class, exit 2 otherwise."""
import sys
import json
from dsim import runner


def main(path):
    import dsim  # noqa
    sys.unraisablehook = runner._quiet_unraisable
    runner.check_repo_import()
    body = json.load(open(path))
    mod = runner.load_prop(body['property'])
    r = runner.violates(mod, body['case'], body['violation_class'])
    if r is None:
        print('NOT-REPRODUCED property=%s class=%s replay=%s'
              % (body['property'], body['violation_class'], path))
        return 2
    o, v = r
    print('VIOLATION property=%s replay=%s' % (body['property'], path))
    print('  class=%s sig=%s %s' % (v['cls'], v['sig'], v.get('msg', '')))
    if body.get('sig') and v['sig'] != body['sig']:
        print('  note: signature differs from the recorded one (%s)' % body['sig'])
    return 1


if __name__ == '__main__':
    runner.reexec_with_hashseed()
    sys.exit(main(sys.argv[1]))
