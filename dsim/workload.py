"""Provenance-tagged workloads: sources, instrumented user functions, pipeline
descriptions (JSON) and the builder that turns a description into real
lazy_dataset pipelines (parallel build and sequential reference build).
"""
import re
import zlib
import numbers

import numpy as np

import lazy_dataset
from lazy_dataset import core as ldc
from lazy_dataset.core import FilterException


# ------------------------------------------------------------ exceptions
class InjectedError(Exception):
    """unrelated Exception"""


class InjectedFilterSub(FilterException):
    """subclass of FilterException"""


class InjectedFilterBare(FilterException):
    """raised without any argument, as `raise FilterException` / `raise Skip()`
    does: e.args == ()"""

    def __init__(self, *where):
        super().__init__()


class InjectedKeyError(KeyError):
    """another unrelated Exception type"""


class InjectedIndexError(IndexError):
    """an IndexError raised by user code (LookupError family, often special-cased)"""


class InjectedTimeout(TimeoutError):
    """a TimeoutError raised by user code (it is also what timed waits of
    concurrent.futures and queue-like helpers raise)"""


class InjectedNotImplemented(NotImplementedError):
    """a NotImplementedError raised by user code (the library uses this family
    internally to signal 'no items() here')"""


class InjectedStopIteration(StopIteration):
    """a StopIteration raised by user code: inside a generator based pipeline it
    can only arrive as RuntimeError('generator raised StopIteration') (PEP 479);
    it must never end the stream silently"""


class InjectedBase(BaseException):
    """not an Exception subclass"""


class ConsumerError(Exception):
    """raised by the consumer body (stop kind 'exc')"""


EXC_KINDS = {
    'filter': FilterException,
    'filter_sub': InjectedFilterSub,
    'filter_bare': InjectedFilterBare,
    'value': InjectedError,
    'key': InjectedKeyError,
    'index': InjectedIndexError,
    'timeout': InjectedTimeout,
    'notimpl': InjectedNotImplemented,
    'stopiter': InjectedStopIteration,
    'base': InjectedBase,
}
EXC_NAME = {v: k for k, v in EXC_KINDS.items()}


def exc_kind_of(e):
    return EXC_NAME.get(type(e), type(e).__name__)


def catch_spec_to_arg(spec):
    """JSON catch spec -> value for catch_filter_exception / catch()."""
    if spec is None or spec is False:
        return None
    if spec is True:
        return True
    if isinstance(spec, str):
        return EXC_KINDS[spec]
    return tuple(EXC_KINDS[s] for s in spec)


def catch_spec_types(spec):
    if spec is None or spec is False:
        return ()
    if spec is True:
        return (FilterException,)
    if isinstance(spec, str):
        return (EXC_KINDS[spec],)
    return tuple(EXC_KINDS[s] for s in spec)


# --------------------------------------------------------------- context
class Ctx:
    """Per-run recorder + fault plan.  User functions look it up through the
    module global CTX at call time (so they stay picklable)."""

    def __init__(self, sim=None, faults=None, cost_seed=None, tag=''):
        self.sim = sim
        self._log = []
        self._seq = 0
        self.faults = {}
        self.pass_faults = {}       # faults that fire only in one pass (epoch)
        self.pass_index = 0
        for f in (faults or []):
            if f.get('pass') is not None:
                self.pass_faults.setdefault((f['stage'], int(f['pass'])), {})[int(f['pos'])] = f['exc']
            else:
                self.faults.setdefault(f['stage'], {})[int(f['pos'])] = f['exc']
        self.cost_seed = cost_seed
        self.raised = []
        self.fired = {}
        self.tag = tag
        self.nonce = 0
        self.armed = False      # faults fire only after the pipeline is built

    @property
    def log(self):
        return self.sim.log if self.sim is not None else self._log

    def event(self, kind, *data):
        if self.sim is not None:
            return self.sim.event(kind, *data)
        self._seq += 1
        self._log.append((self._seq, 0, kind) + data)
        return self._seq

    def cost(self, stage, ids):
        if self.cost_seed is None or self.sim is None:
            return 0
        h = zlib.crc32(('%s:%s:%s' % (self.cost_seed, stage, ids)).encode())
        return h % 4

    def fault_for(self, stage, ids):
        if not self.armed:
            return None
        for fs in (self.faults.get(stage), self.pass_faults.get((stage, self.pass_index))):
            if not fs:
                continue
            for i in ids:
                k = fs.get(i)
                if k is not None:
                    return k, i
        return None


CTX = None


def set_ctx(ctx):
    global CTX
    CTX = ctx
    return ctx


def src_ids(v):
    out = []
    stack = [v]
    while stack:
        x = stack.pop()
        if isinstance(x, dict):
            if 'src' in x:
                out.append(x['src'])
            elif 'x' in x:
                stack.append(x['x'])
        elif isinstance(x, (list, tuple)):
            stack.extend(reversed(x))
    return tuple(out)


def part_path(v):
    """fragment part numbers along the provenance chain (distinguishes the
    parts of one source example after fragment + unbatch)."""
    out = []
    stack = [v]
    while stack:
        x = stack.pop()
        if isinstance(x, dict):
            if 'part' in x:
                out.append(x['part'])
            if 'x' in x:
                stack.append(x['x'])
        elif isinstance(x, (list, tuple)):
            stack.extend(reversed(x))
    return tuple(out)


def _enter(stage, x, kind='call'):
    ctx = CTX
    ids = src_ids(x)
    ctx.event(kind, stage, ids, part_path(x))
    h = getattr(ctx, 'on_call', None)
    if h is not None:
        h(stage, ids)       # environment event inside a user function (e.g. memory drops)
    c = ctx.cost(stage, ids)
    if c:
        ctx.sim.work(c)
    f = ctx.fault_for(stage, ids)
    if f is not None:
        k, i = f
        e = EXC_KINDS[k](stage, i)
        ctx.raised.append(e)
        ctx.fired[k] = ctx.fired.get(k, 0) + 1
        ctx.event('raise', stage, ids, k)
        raise e
    return ctx, ids


class MapFn:
    """x -> {'f': stage, 'x': x}; records call/ret; may raise per fault plan."""

    def __init__(self, stage):
        self.stage = stage

    def __call__(self, x):
        ctx, ids = _enter(self.stage, x)
        ctx.event('ret', self.stage, ids)
        return {'f': self.stage, 'x': x}

    def __repr__(self):
        return 'MapFn(%s)' % self.stage


class FreshFn(MapFn):
    """like MapFn but every call returns a value carrying a fresh nonce."""

    def __call__(self, x):
        ctx, ids = _enter(self.stage, x)
        ctx.nonce += 1
        ctx.event('ret', self.stage, ids)
        return {'f': self.stage, 'x': x, 'nonce': ctx.nonce}


class FilterFn:
    def __init__(self, stage, mod, rem):
        self.stage, self.mod, self.rem = stage, mod, rem

    def verdict_of(self, ids):
        return (ids[0] % self.mod != self.rem) if ids else True

    def __call__(self, x):
        ctx, ids = _enter(self.stage, x)
        v = self.verdict_of(ids)
        ctx.event('verdict', self.stage, ids, v)
        return v

    def __repr__(self):
        return 'FilterFn(%s,%s,%s)' % (self.stage, self.mod, self.rem)


FALSY = {'none': None, 'zero': 0, 'empty': '', 'emptylist': [], 'emptydict': {},
         'false': False}
# examples that ARE exception objects (errors kept as values): legal examples
# that error-forwarding code tends to mistake for a failure
EXC_VALUES = {'excobj': lambda: KeyError('kept as a value'),
              'stopiterobj': lambda: StopIteration(),
              'filterobj': lambda: FilterException('kept as a value')}


class FalsyFn:
    """Replaces selected examples by a falsy value (None, 0, '', [], {}, False):
    legal examples that sentinel-style code tends to mistake for 'no value'."""

    def __init__(self, stage, mod, rem, val):
        self.stage, self.mod, self.rem, self.val = stage, mod, rem, val

    def __call__(self, x):
        ctx, ids = _enter(self.stage, x)
        ctx.event('ret', self.stage, ids)
        if ids and ids[0] % self.mod == self.rem:
            if self.val in EXC_VALUES:
                return EXC_VALUES[self.val]()
            v = FALSY[self.val]
            return type(v)() if isinstance(v, (list, dict)) else v
        return x


class KeyFn:
    """sort / group key: a function of the embedded source ids only."""

    def __init__(self, stage, mul=7, mod=5):
        self.stage, self.mul, self.mod = stage, mul, mod

    def __call__(self, x):
        ctx, ids = _enter(self.stage, x)
        ctx.event('ret', self.stage, ids)
        return (ids[0] * self.mul) % self.mod if ids else 0


class FragmentFn:
    """x -> [x-part-0, x-part-1] (a list, for unbatch)"""

    def __init__(self, stage, parts=2, lazy=False):
        self.stage, self.parts, self.lazy = stage, parts, lazy

    def __call__(self, x):
        ctx, ids = _enter(self.stage, x)
        ctx.event('ret', self.stage, ids)
        if self.lazy:
            # a generator as batch (legal for unbatch): every part is computed
            # when it is asked for, and says so
            return self._parts(x, ids)
        return [{'f': self.stage, 'x': x, 'part': p} for p in range(self.parts)]

    def _parts(self, x, ids):
        for p in range(self.parts):
            ctx = CTX
            if ctx is not None:
                ctx.event('part', self.stage, ids, (p,) + part_path(x))
            yield {'f': self.stage, 'x': x, 'part': p}


class ApplyShuffle:
    """apply_fn for ds.apply(..., lazy=True): a user-level reshuffle with its
    own seeded generator (the example of ApplyDataset's docstring)."""

    def __init__(self, seed):
        self.seed = seed
        self.rng = np.random.RandomState(seed)
        self.permutation = None

    def __call__(self, ds):
        if self.permutation is None:
            self.permutation = np.arange(len(ds))
        self.rng.shuffle(self.permutation)
        return ds[self.permutation]

    def __repr__(self):
        return 'ApplyShuffle(%s)' % self.seed


class ApplyReshuffle:
    """apply_fn that itself adds a per-epoch random stage"""

    def __init__(self, seed):
        self.seed = seed
        self.rng = np.random.RandomState(seed)

    def __call__(self, ds):
        return ds.shuffle(True, rng=self.rng)

    def __repr__(self):
        return 'ApplyReshuffle(%s)' % self.seed


# ---------------------------------------------------- reference datasets
class RefCatchDataset(ldc.Dataset):
    """Independent sequential meaning of prefetch(catch_filter_exception=E):
    evaluate position by position, omit positions raising one of E."""

    def __init__(self, input_dataset, exceptions, with_keys=False):
        self.input_dataset = input_dataset
        self.exceptions = exceptions

    def __iter__(self, with_key=False):
        ds = self.input_dataset.copy(freeze=True)
        if with_key:
            for k in ds.keys():
                try:
                    v = ds[k]
                except self.exceptions:
                    continue
                yield k, v
        else:
            for i in range(len(ds)):
                try:
                    v = ds[i]
                except self.exceptions:
                    continue
                yield v

    @property
    def indexable(self):
        return False

    @property
    def ordered(self):
        return self.input_dataset.ordered

    def copy(self, freeze=False):
        return RefCatchDataset(self.input_dataset.copy(freeze=freeze),
                               self.exceptions)


# ---------------------------------------------------------------- builder
class UserSource(lazy_dataset.Dataset):
    """A user-written dataset: `__len__`, integer `__getitem__` and an
    `__iter__` that is an ordinary method, not a generator function: a failure
    while the iteration is being set up (a file that cannot be opened) is
    raised by `iter(ds)` itself, before the first `next()`."""

    def __init__(self, n, offset=0):
        self.n, self.offset = n, offset

    def copy(self, freeze=False):
        return self.__class__(self.n, self.offset)

    @property
    def indexable(self):
        return True

    @property
    def ordered(self):
        return True

    def __len__(self):
        return self.n

    def __getitem__(self, item):
        if isinstance(item, numbers.Integral):
            i = int(item)
            if i < 0:
                i += self.n
            if not 0 <= i < self.n:
                raise IndexError(item)
            return {'src': self.offset + i}
        return super().__getitem__(item)

    def __iter__(self, with_key=False):
        if with_key:
            raise ldc._ItemsNotDefined(self.__class__.__name__)
        ctx = CTX
        if ctx is not None:
            f = ctx.fault_for('src_iter', (0,))
            if f is not None:
                k, i = f
                e = EXC_KINDS[k]('src_iter', i)
                ctx.raised.append(e)
                ctx.fired[k] = ctx.fired.get(k, 0) + 1
                ctx.event('raise', 'src_iter', (), k)
                raise e
        return iter([{'src': self.offset + i} for i in range(self.n)])


class _PlainIterator:
    """an iterator object that is not a generator: no close(), no throw()"""

    def __init__(self, it):
        self.it = it

    def __iter__(self):
        return self

    def __next__(self):
        return next(self.it)


class UserStage(lazy_dataset.Dataset):
    """A user-written pass-through stage (a Dataset subclass delegating length,
    index access and copy) whose `__iter__` is an ordinary method: a failure
    while the iteration is set up is raised by `iter(ds)` itself."""

    def __init__(self, input_dataset, cleanup=0, plain_iter=False):
        self.input_dataset = input_dataset
        self.cleanup = cleanup          # the iteration's clean-up takes that long (virtual ms)
        self.plain_iter = plain_iter    # __iter__ returns an iterator object without close()

    def copy(self, freeze=False):
        return self.__class__(self.input_dataset.copy(freeze=freeze), self.cleanup,
                              self.plain_iter)

    @property
    def indexable(self):
        return self.input_dataset.indexable

    @property
    def ordered(self):
        return self.input_dataset.ordered

    def _slow_cleanup_iter(self):
        try:
            for x in self.input_dataset:
                yield x
        finally:
            ctx = CTX
            if ctx is not None and ctx.sim is not None and ctx.sim.me() is not None \
                    and not ctx.sim.aborting:
                # releasing what the iteration holds takes a while (a file is
                # flushed, a connection closed): the thread that finalises the
                # iterator is not runnable meanwhile
                ctx.event('cleanup', 'src_iter')
                ctx.sim.sleep(self.cleanup / 1000.0)

    def __len__(self):
        return len(self.input_dataset)

    def __getitem__(self, item):
        if isinstance(item, numbers.Integral):
            return self.input_dataset[item]
        return super().__getitem__(item)

    def __iter__(self, with_key=False):
        if with_key:
            raise ldc._ItemsNotDefined(self.__class__.__name__)
        ctx = CTX
        if ctx is not None:
            f = ctx.fault_for('src_iter', (0,))
            if f is not None:
                k, i = f
                e = EXC_KINDS[k]('src_iter', i)
                ctx.raised.append(e)
                ctx.fired[k] = ctx.fired.get(k, 0) + 1
                ctx.event('raise', 'src_iter', (), k)
                raise e
        if self.cleanup:
            return self._slow_cleanup_iter()
        if self.plain_iter:
            return _PlainIterator(iter(self.input_dataset))
        return iter(self.input_dataset)


class UserStagePlain(UserStage):
    """the same, with the shortest legal signature: `__iter__(self)` (the base
    class comment allows a dataset to implement `__iter__` without `with_key`
    when it does not support key iteration)"""

    def __iter__(self):
        return UserStage.__iter__(self)


class UserSourceNoCopy(UserSource):
    """a user-written dataset that does not implement copy(): everything that
    needs a copy of the pipeline (freezing, multi-worker prefetch, catch) is
    refused loudly"""

    def copy(self, freeze=False):
        return lazy_dataset.Dataset.copy(self, freeze=freeze)


def make_source(src, offset=0):
    n = src['n']
    if src.get('kind', 'list') == 'user_nocopy':
        return UserSourceNoCopy(n, offset)
    if src.get('kind', 'list') == 'user':
        return UserSource(n, offset)
    if src.get('kind', 'list') == 'dict':
        return lazy_dataset.new({'k%d' % (offset + i): {'src': offset + i}
                                 for i in range(n)})
    return lazy_dataset.new([{'src': offset + i} for i in range(n)])


def _slice_arg(sl):
    if isinstance(sl, dict):
        return slice(sl.get('start'), sl.get('stop'), sl.get('step'))
    return list(sl)


_SHARED_RNG = [None]


def _rng(st):
    """generator for a random stage: its own seeded RandomState, or the one
    generator object shared by all random stages of this build"""
    if _SHARED_RNG[0] is not None:
        return _SHARED_RNG[0]
    return np.random.RandomState(st['seed'])


def apply_stage(ds, st, parallel=True):
    op = st['op']
    if op == 'map':
        return ds.map(MapFn(st['id']))
    if op == 'fresh':
        return ds.map(FreshFn(st['id']))
    if op == 'cycle':
        return ds.cycle()
    if op == 'tile':
        return ds.tile(st.get('reps', 2))
    if op == 'falsy':
        return ds.map(FalsyFn(st['id'], st['mod'], st['rem'], st['val']))
    if op == 'slice':
        return ds[_slice_arg(st['sl'])]
    if op == 'batch':
        return ds.batch(st['bs'], drop_last=st.get('drop_last', False))
    if op == 'unbatch':
        return ds.unbatch()
    if op == 'fragment':
        return ds.map(FragmentFn(st['id'], st.get('parts', 2), lazy=bool(st.get('lazy'))))
    if op == 'filter':
        return ds.filter(FilterFn(st['id'], st['mod'], st['rem']),
                         lazy=st.get('lazy', True))
    if op == 'items':
        return ds.items()
    if op == 'shuffle':
        return ds.shuffle(False, rng=_rng(st))
    if op == 'reshuffle':
        return ds.shuffle(True, rng=_rng(st))
    if op == 'local_shuffle':
        return ds.shuffle(True, rng=_rng(st), buffer_size=st['bs'])
    if op == 'apply':
        fn = ApplyReshuffle(st['seed']) if st.get('inner') == 'reshuffle' \
            else ApplyShuffle(st['seed'])
        return ds.apply(fn, lazy=True)
    if op == 'sort':
        return ds.sort(KeyFn(st['id']), reverse=st.get('reverse', False))
    if op == 'cache':
        return ds.cache()
    if op == 'concat':
        other = make_source({'kind': st.get('kind', 'list'), 'n': st['n']},
                            offset=st.get('offset', 100))
        if st.get('map'):
            other = other.map(MapFn(st['map']))
        return ds.concatenate(other)
    if op == 'userstage':
        return (UserStagePlain if st.get('plain') else UserStage)(
            ds, cleanup=st.get('cleanup', 0), plain_iter=bool(st.get('plain_iter')))
    if op == 'keyzip':
        off = st.get('offset', 300)
        keys = list(ds.keys())
        other = lazy_dataset.new({k: {'src': off + int(k[1:])} for k in reversed(keys)})
        if st.get('map'):
            other = other.map(MapFn(st['map']))
        return ds.key_zip(other)
    if op == 'intersperse':
        other = make_source({'kind': st.get('kind', 'list'), 'n': st['n']},
                            offset=st.get('offset', 100))
        if st.get('map'):
            other = other.map(MapFn(st['map']))
        return ds.intersperse(other)
    if op == 'zip':
        other = make_source({'kind': 'list', 'n': st['n']},
                            offset=st.get('offset', 200))
        if st.get('map'):
            other = other.map(MapFn(st['map']))
        return ds.zip(other)
    if op == 'catch':
        return ds.catch(catch_spec_to_arg(st['exc']) or FilterException)
    if op == 'profile':
        return ldc.ProfilingDataset(ds)
    if op == 'prefetch':
        spec = st.get('catch')
        if parallel:
            kw = {}
            if spec is not None:
                kw['catch_filter_exception'] = catch_spec_to_arg(spec)
            w, b, backend = par_args(st)
            return ds.prefetch(w, b, backend=backend, **kw)
        if spec:
            return RefCatchDataset(ds, catch_spec_types(spec))
        return ds
    if op == 'parmap':
        if parallel:
            w, b, backend = par_args(st)
            if st.get('batched'):
                return ds.batch_map(MapFn(st['id']), num_workers=w, buffer_size=b,
                                    backend=backend)
            return ds.map(MapFn(st['id']), num_workers=w, buffer_size=b, backend=backend)
        if st.get('batched'):
            return ds.batch_map(MapFn(st['id']))
        return ds.map(MapFn(st['id']))
    raise ValueError(op)


def par_args(st):
    """(num_workers, buffer_size, backend) in the spelling the stage asks for"""
    import numpy as np
    w, b = st['w'], st['b']
    backend = st.get('backend', 't')
    if st.get('alias') and backend == 't':
        backend = 'thread'
    num = st.get('num')
    if num == 'float':
        b = float(b)
    elif num == 'half':
        b = b - 0.5
    elif num == 'np':
        w, b = np.int64(w), np.int32(b)
    return w, b, backend


def build(desc, parallel=True):
    _SHARED_RNG[0] = None
    if desc.get('shared_rng') is not None:
        _SHARED_RNG[0] = np.random.RandomState(desc['shared_rng'])
    from . import sim as S
    try:
        # locks the library creates while the pipeline is built must be known
        # to the simulator that later runs threads over it
        with S.building():
            ds = make_source(desc['source'])
            for st in desc['stages']:
                ds = apply_stage(ds, st, parallel=parallel)
    finally:
        _SHARED_RNG[0] = None
    return ds


def close_iter(it):
    """close() a generator-based iterator; a plain iterator object (legal for
    __iter__ to return) is simply dropped"""
    c = getattr(it, 'close', None)
    if c is not None:
        c()


def norm(v):
    """Normalise a delivered value for comparison / JSON (tuples -> lists)."""
    if isinstance(v, dict):
        return {str(k): norm(x) for k, x in v.items()}
    if isinstance(v, tuple):
        return ['__tuple__'] + [norm(x) for x in v]
    if isinstance(v, list):
        return [norm(x) for x in v]
    if isinstance(v, np.ndarray):
        return ['nd'] + v.tolist()
    if isinstance(v, numbers.Integral):
        return int(v)
    if isinstance(v, BaseException):
        return ['__exception_object__', type(v).__name__, norm(v.args)]
    return v


_ADDR = re.compile(r'0x[0-9a-fA-F]+')


def short(v, limit=160):
    s = _ADDR.sub('0x?', repr(v))
    return s if len(s) <= limit else s[:limit] + '...'
