"""Generic check driver: seeded family generation, forked workers with
watchdogs, violation collection, minimisation, replay files, known findings,
evidence.  Exit codes: 0 held, 1 VIOLATION, 2 harness error.
"""
import os
import sys
import json
import time
import random
import hashlib
import importlib
import traceback
import faulthandler
import collections
import multiprocessing

VERIF = os.path.dirname(os.path.dirname(os.path.abspath(__file__)))
REPO = os.environ.get('VERIF_REPO', '/repo')
EVIDENCE_DIR = os.environ.get('VERIF_EVIDENCE_DIR') or os.path.join(VERIF, 'evidence')
REPLAY_DIR = os.environ.get('VERIF_REPLAY_DIR') or os.path.join(VERIF, 'replays')
KNOWN = os.path.join(VERIF, 'known_findings.txt')

CASE_TIMEOUT = 300          # wall seconds per generation step / case before a worker is declared wedged


def family_seed(verif_seed, prop, index):
    h = hashlib.sha256(('%d|%s|%d' % (verif_seed, prop, index)).encode()).digest()
    return int.from_bytes(h[:8], 'big')


def key_hash(s):
    return int.from_bytes(hashlib.blake2b(s.encode(), digest_size=8).digest(), 'big')


def load_prop(prop):
    return importlib.import_module('dsim.props.' + prop.lower())


def check_repo_import():
    import lazy_dataset
    f = os.path.realpath(lazy_dataset.__file__)
    if not f.startswith(os.path.realpath(REPO) + os.sep):
        raise SystemExit('HARNESS-ERROR lazy_dataset imported from %s, not from %s'
                         % (f, REPO))
    return f


# ---------------------------------------------------------------- findings
def load_known():
    """-> {(prop, sig): text} for 'finding:' lines; 'fixed:' lines suppress nothing."""
    out = {}
    if not os.path.exists(KNOWN):
        return out
    for line in open(KNOWN):
        line = line.strip()
        if not line.startswith('finding:'):
            continue
        body = line[len('finding:'):].strip()
        parts = body.split(None, 2)
        kv = dict(p.split('=', 1) for p in parts[:2] if '=' in p)
        if 'property' in kv and 'sig' in kv:
            out[(kv['property'], kv['sig'])] = parts[2] if len(parts) > 2 else ''
    return out


# ------------------------------------------------------------------ worker
CUT_SHORT = [False]


def run_family(mod, verif_seed, index, tier, tick=None, deadline=None):
    """-> (cases, outcomes) for one family; deterministic.  tick() is called
    before the generation and before every case (re-arms the watchdog).  Past
    `deadline` (the batch's wall-clock cap) the rest of the family is left out
    and CUT_SHORT[0] is set: a large systematic family must not carry a check
    far beyond its cap."""
    rng = random.Random(family_seed(verif_seed, mod.PROP, index))
    if tick:
        tick()
    cases = mod.gen(rng, tier, index)
    outs = []
    CUT_SHORT[0] = False
    for c in cases:
        if deadline is not None and time.time() > deadline:
            CUT_SHORT[0] = True
            break
        if tick:
            tick()
        outs.append(guarded_run(mod, c))
    return cases[:len(outs)], outs


def _rearm():
    # a single generation step or case that takes this long is wedged
    faulthandler.dump_traceback_later(CASE_TIMEOUT, exit=True)


def _library_frame(tb):
    """innermost traceback frame that lies in the imported lazy_dataset package"""
    import lazy_dataset
    root = os.path.dirname(os.path.realpath(lazy_dataset.__file__)) + os.sep
    found = None
    while tb is not None:
        f = os.path.realpath(tb.tb_frame.f_code.co_filename)
        if f.startswith(root):
            found = tb.tb_frame.f_code.co_name
        tb = tb.tb_next
    return found


def guarded_run(mod, case):
    """mod.run(case); an exception that escapes the check's own model and
    was raised inside the library is a violation ('the library raised where the
    model expected an answer'), anything else is a harness error."""
    try:
        return mod.run(case)
    except Exception as e:
        where = _library_frame(e.__traceback__)
        if where is None:
            raise
        msg = 'the library raised %s: %s in %s() where the check expected an answer' % (
            type(e).__name__, str(e)[:200].replace('\n', ' '), where)
        try:
            from . import workload
            workload.set_ctx(None)
        except Exception:
            pass
        return {'violations': [{'cls': 'unexpected_exception',
                                'sig': 'unexpected_exception:%s:%s' % (type(e).__name__, where),
                                'msg': msg}],
                'nontrivial': False, 'key': '', 'fired': {}, 'probes': {}, 'stats': {},
                'digest': 'exc:' + type(e).__name__ + ':' + where, 'choices': None,
                'sample': None}


def _summarise(mod, acc, cases, outs, want_samples):
    for c, o in zip(cases, outs):
        acc['evals'] += 1
        if o.get('nontrivial'):
            acc['keys'].add(key_hash(o.get('key', '')))
        for k, v in (o.get('fired') or {}).items():
            acc['fired'][k] += v
        for k, v in (o.get('probes') or {}).items():
            acc['probes'][k] += v
        for k, v in (o.get('stats') or {}).items():
            acc['stats'][k] += v
        for p in (o.get('pairs') or ()):
            acc['pairs'].add(p)
        if want_samples and len(acc['samples']) < want_samples and \
                o.get('sample') is not None and o.get('nontrivial'):
            acc['samples'].append(o['sample'])
        for v in o.get('violations') or ():
            if len(acc['violations']) < 40:
                acc['violations'].append((c, v))
            acc['nviol'] += 1


def _new_acc():
    return {'evals': 0, 'keys': set(), 'fired': collections.Counter(),
            'probes': collections.Counter(), 'stats': collections.Counter(),
            'pairs': set(), 'samples': [], 'violations': [], 'nviol': 0,
            'digests': {}, 'nondet': []}


def _digest(outs):
    h = hashlib.sha256()
    for o in outs:
        h.update(str(o.get('digest', '')).encode())
        h.update(json.dumps(o.get('violations') or [], sort_keys=True, default=str).encode())
    return h.hexdigest()[:16]


def worker_main(prop, verif_seed, tier, nfam, counter, conn, wid, deadline, chunk,
                twice_every):
    """Forked worker.  Single-threaded on purpose (the simulator replaces the
    lock allocator process-wide while a run is active): results go through a
    synchronous pipe, not a multiprocessing.Queue with its feeder thread."""
    try:
        faulthandler.enable()
        sys.unraisablehook = _quiet_unraisable
        mod = load_prop(prop)
        while True:
            with counter.get_lock():
                start = counter.value
                counter.value += chunk
            if start >= nfam or time.time() > deadline:
                break
            acc = _new_acc()
            for i in range(start, min(start + chunk, nfam)):
                if time.time() > deadline:
                    acc['truncated'] = True
                    break
                cases, outs = run_family(mod, verif_seed, i, tier, _rearm, deadline)
                if CUT_SHORT[0]:
                    acc['truncated'] = True
                d = _digest(outs)
                if i < 64:
                    acc['digests'][i] = d
                if twice_every and i % twice_every == 0 and len(cases) <= 400 \
                        and not CUT_SHORT[0] and time.time() < deadline:
                    cases2, outs2 = run_family(mod, verif_seed, i, tier, _rearm)
                    if _digest(outs2) != d or cases2 != cases:
                        acc['nondet'].append(i)
                faulthandler.cancel_dump_traceback_later()
                _summarise(mod, acc, cases, outs, 2 if i < 8 else 0)
                acc['families'] = acc.get('families', 0) + 1
            acc['keys'] = list(acc['keys'])
            acc['pairs'] = list(acc['pairs'])
            conn.send(('chunk', wid, acc))
        conn.send(('done', wid, None))
    except BaseException:
        try:
            conn.send(('error', wid, traceback.format_exc()))
        except Exception:
            pass
        os._exit(3)
    os._exit(0)


def run_pool(prop, verif_seed, tier, nfam, nworkers, wall_cap, twice_every=16):
    from multiprocessing.connection import wait
    ctx = multiprocessing.get_context('fork')
    counter = ctx.Value('l', 0)
    deadline = time.time() + wall_cap
    chunk = max(1, min(8, nfam // (nworkers * 8) or 1))
    procs = []
    conns = {}
    for w in range(nworkers):
        r, s_ = ctx.Pipe(duplex=False)
        p = ctx.Process(target=worker_main,
                        args=(prop, verif_seed, tier, nfam, counter, s_, w,
                              deadline, chunk, twice_every))
        p.start()
        s_.close()
        procs.append(p)
        conns[r] = w
    total = _new_acc()
    total['families'] = 0
    total['truncated'] = False
    errors = []
    finished = set()
    # VERIF_STOP_AT_FIRST=1 (used by tools/seeded.py only): hand out no further
    # families once a violation that is not a listed finding has been seen
    stop_first = os.environ.get('VERIF_STOP_AT_FIRST') == '1'
    known = load_known() if stop_first else {}
    while conns:
        ready = wait(list(conns), timeout=1.0)
        if not ready:
            # a dead worker whose pipe is still held open by a process it
            # leaked (no EOF will ever arrive): account for it here
            for r, w in list(conns.items()):
                if not procs[w].is_alive() and not r.poll(0):
                    if w not in finished:
                        errors.append('worker %d died with exit code %s (a wedged run '
                                      'killed by the watchdog?)' % (w, procs[w].exitcode))
                    del conns[r]
        for r in ready:
            w = conns[r]
            try:
                kind, wid, payload = r.recv()
            except EOFError:
                if w not in finished:
                    procs[w].join(timeout=5)
                    errors.append('worker %d died with exit code %s (a wedged run '
                                  'killed by the watchdog?)' % (w, procs[w].exitcode))
                    # no verdict can come out of this run: stop handing out work
                    with counter.get_lock():
                        counter.value = max(counter.value, nfam)
                del conns[r]
                continue
            if kind == 'done':
                finished.add(wid)
            elif kind == 'error':
                errors.append(payload)
                finished.add(wid)
            elif kind == 'chunk':
                a = payload
                total['evals'] += a['evals']
                total['keys'].update(a['keys'])
                total['fired'].update(a['fired'])
                total['probes'].update(a['probes'])
                total['stats'].update(a['stats'])
                total['pairs'].update(_tup(p) for p in a['pairs'])
                total['samples'] += a['samples']
                total['violations'] += a['violations']
                total['nviol'] += a['nviol']
                if stop_first and any((prop, v_['sig']) not in known
                                      for _c, v_ in a['violations']):
                    with counter.get_lock():
                        counter.value = max(counter.value, nfam)
                total['digests'].update(a['digests'])
                total['nondet'] += a['nondet']
                total['families'] += a.get('families', 0)
                total['truncated'] = total['truncated'] or a.get('truncated', False)
    for p in procs:
        p.join(timeout=5)
        if p.is_alive():
            p.kill()
    if total['families'] < nfam:
        total['truncated'] = True
    return total, errors


def _quiet_unraisable(u):
    # generators finalised while a run is being aborted raise SimAbort
    if u.exc_type is not None and u.exc_type.__name__ == 'SimAbort':
        return
    sys.__unraisablehook__(u)


def _tup(x):
    return tuple(_tup(y) for y in x) if isinstance(x, (list, tuple)) else x


# ---------------------------------------------------------------- minimise
def violates(mod, case, cls):
    try:
        o = guarded_run(mod, case)
    except Exception:
        return None
    for v in o.get('violations') or ():
        if v['cls'] == cls:
            return o, v
    return None


def minimise(mod, case, viol, budget_s=20.0):
    """Greedy property-specific simplification, then ddmin of the schedule."""
    t_end = time.time() + budget_s
    cls = viol['cls']
    best = case
    best_v = viol
    best_o = None
    improved = True
    rounds = 0
    while improved and time.time() < t_end:
        improved = False
        rounds += 1
        for cand in mod.shrink(best):
            if time.time() > t_end:
                break
            r = violates(mod, cand, cls)
            if r is not None:
                best, (best_o, best_v) = cand, r
                improved = True
                break
    # schedule: pin the recorded choices, then remove them chunk-wise
    r = violates(mod, best, cls)
    if r is not None and r[0].get('choices') is not None and 'sched' in best:
        o, v = r
        pinned = json.loads(json.dumps(best))
        pinned['sched'] = dict(pinned['sched'], choices=o['choices'])
        r2 = violates(mod, pinned, cls)
        if r2 is not None:
            best, best_v = pinned, r2[1]
            ch = list(pinned['sched']['choices'])
            n = 2
            while len(ch) >= 1 and time.time() < t_end:
                size = max(1, len(ch) // n)
                removed = False
                for s in range(0, len(ch), size):
                    cand_ch = ch[:s] + ch[s + size:]
                    cand = json.loads(json.dumps(best))
                    cand['sched']['choices'] = cand_ch
                    r3 = violates(mod, cand, cls)
                    if r3 is not None:
                        ch = cand_ch
                        best, best_v = cand, r3[1]
                        n = max(n - 1, 2)
                        removed = True
                        break
                    if time.time() > t_end:
                        break
                if not removed:
                    if size == 1:
                        break
                    n = min(n * 2, len(ch))
    return best, best_v


def write_replay(prop, case, viol, verif_seed, extra=None):
    os.makedirs(os.path.join(REPLAY_DIR, prop), exist_ok=True)
    body = {'property': prop, 'violation_class': viol['cls'], 'sig': viol['sig'],
            'message': viol.get('msg'), 'verif_seed': verif_seed, 'case': case}
    if extra:
        body.update(extra)
    blob = json.dumps(body, sort_keys=True, indent=1, default=str)
    name = hashlib.sha256(blob.encode()).hexdigest()[:12] + '.json'
    path = os.path.join(REPLAY_DIR, prop, name)
    with open(path, 'w') as f:
        f.write(blob)
    return path


# --------------------------------------------------------------- main entry
def reexec_with_hashseed():
    if os.environ.get('PYTHONHASHSEED') != '0':
        env = dict(os.environ, PYTHONHASHSEED='0')
        os.execve(sys.executable, [sys.executable] + list(sys.orig_argv[1:]), env)


def fresh_interpreter_digests(prop, verif_seed, tier, n):
    """Digests of the first n families computed in a fresh interpreter with a
    different hash seed (determinism self-test)."""
    import subprocess
    env = dict(os.environ, PYTHONHASHSEED='7', VERIF_SEED=str(verif_seed))
    cmd = [sys.executable, '-m', 'dsim.check', prop, '--tier', tier,
           '--digests', str(n)]
    p = subprocess.run(cmd, cwd=VERIF, env=env, capture_output=True, text=True,
                       timeout=300)
    if p.returncode != 0:
        raise RuntimeError('digest subprocess failed: %s' % p.stderr[-2000:])
    return {int(k): v for k, v in json.loads(p.stdout.strip().splitlines()[-1]).items()}


def main(argv=None):
    import argparse
    ap = argparse.ArgumentParser()
    ap.add_argument('prop')
    ap.add_argument('--tier', default=os.environ.get('VERIF_TIER', 'quick'))
    ap.add_argument('--workers', type=int,
                    default=int(os.environ.get('VERIF_WORKERS', '0')))
    ap.add_argument('--families', type=int, default=0)
    ap.add_argument('--digests', type=int, default=0)
    ap.add_argument('--no-selftest', action='store_true')
    args = ap.parse_args(argv)
    prop = args.prop.upper()
    tier = args.tier if args.tier in ('quick', 'thorough') else 'quick'
    try:
        verif_seed = int(os.environ.get('VERIF_SEED', '0') or 0)
    except ValueError:
        verif_seed = key_hash(os.environ['VERIF_SEED']) % (1 << 31)

    if args.digests:
        import dsim  # noqa
        check_repo_import()
        mod = load_prop(prop)
        out = {}
        for i in range(args.digests):
            cases, outs = run_family(mod, verif_seed, i, tier)
            out[i] = _digest(outs)
        print(json.dumps(out))
        return 0

    t0 = time.time()
    sys.unraisablehook = _quiet_unraisable
    import signal
    faulthandler.register(signal.SIGUSR1, all_threads=True)
    import dsim  # noqa
    try:
        check_repo_import()
        mod = load_prop(prop)
    except SystemExit:
        raise
    except Exception:
        traceback.print_exc()
        print('HARNESS-ERROR cannot load check %s' % prop)
        return 2
    nworkers = args.workers or min(16, os.cpu_count() or 4)
    budget = mod.BUDGET[tier]
    nfam = args.families or budget['families']
    wall_cap = float(os.environ.get('VERIF_WALL_CAP') or budget['wall_cap'])   # env: testing aid
    total, errors = run_pool(prop, verif_seed, tier, nfam, nworkers, wall_cap)
    harness_errors = list(errors)

    selftest = {}
    if total['nondet']:
        harness_errors.append('non-deterministic families (same seed, two runs '
                              'in one process differ): %s' % total['nondet'][:10])
    selftest['same_process_twice'] = {'mismatches': len(total['nondet'])}
    if not args.no_selftest and not harness_errors:
        n = min(12 if tier == 'quick' else 48, nfam)
        try:
            fresh = fresh_interpreter_digests(prop, verif_seed, tier, n)
            bad = [i for i, d in fresh.items()
                   if i in total['digests'] and total['digests'][i] != d]
            selftest['fresh_interpreter_other_hashseed'] = {
                'compared': len([i for i in fresh if i in total['digests']]),
                'mismatches': len(bad)}
            if bad:
                harness_errors.append('digests differ in a fresh interpreter with '
                                      'PYTHONHASHSEED=7 for families %s' % bad[:10])
        except Exception as e:
            harness_errors.append('fresh-interpreter self-test failed: %r' % (e,))

    # ---- violations: dedupe by signature, minimise, classify
    known = load_known()
    by_sig = collections.OrderedDict()
    for case, v in total['violations']:
        by_sig.setdefault(v['sig'], []).append((case, v))
    lines = []
    new_violations = 0
    known_hits = collections.Counter()
    replays = []
    reported = set()
    shrink_total = time.time() + 4 * mod.BUDGET[tier].get('shrink_s', 15)
    for sig, lst in by_sig.items():
        case, v = lst[0]
        if (prop, sig) in known:
            known_hits[sig] += len(lst)
            continue
        if new_violations >= 8:
            print('  (further violation signatures not minimised: %s)' % sig)
            continue
        mcase, mv = case, v
        if violates(mod, case, v['cls']) is None:
            harness_errors.append('violation %s (%s) did not reproduce when the '
                                  'same case was run again' % (v['cls'], sig))
            continue
        try:
            mcase, mv = minimise(mod, case, v, budget_s=max(
                2.0, min(mod.BUDGET[tier].get('shrink_s', 15),
                         shrink_total - time.time())))
        except Exception:
            traceback.print_exc()
        if (prop, mv['sig']) in known and mv['sig'] != sig:
            # minimisation drifted into a known finding; report the original
            mcase, mv = case, v
        if mv['sig'] in reported:
            continue
        reported.add(mv['sig'])
        path = write_replay(prop, mcase, mv, verif_seed,
                            {'original_case': case} if mcase is not case else None)
        replays.append(path)
        new_violations += 1
        lines.append('VIOLATION property=%s replay=%s' % (prop, path))
        lines.append('  class=%s sig=%s %s' % (mv['cls'], mv['sig'], mv.get('msg', '')))
    for sig, cnt in known_hits.items():
        print('KNOWN-FINDING: property=%s sig=%s %s (hit %d times)'
              % (prop, sig, known[(prop, sig)], cnt))
    for ln in lines:
        print(ln)

    wall = time.time() - t0
    evals = total['evals']
    st = total['stats']
    cov = {
        'evaluations': evals,
        'distinct_nontrivial': len(total['keys']),
        'rule': mod.RULE,
        'samples': total['samples'][:4],
        'families': total['families'],
        'families_planned': nfam,
        'truncated_by_wall_cap': bool(total['truncated']),
        'runs_per_hour': int(evals / max(wall, 1e-6) * 3600),
        'seeds_per_hour': int(total['families'] / max(wall, 1e-6) * 3600),
        'fault_kinds_fired': dict(total['fired']),
        'probes': dict(total['probes']),
        'probes_stuck_at_zero': [p for p in getattr(mod, 'PROBES', [])
                                 if not total['probes'].get(p)],
        'sim_totals': dict(st),
        'simulated_time_s': round(st.get('now_ms', 0) / 1000.0, 3),
        'context_switch_site_pairs': len(total['pairs']),
        'components': getattr(mod, 'COMPONENTS', {}),
        'selftest': selftest,
        'known_findings_hit': dict(known_hits),
        'workers': nworkers,
        'replays': replays,
    }
    ev = {
        'property_id': prop, 'tier': tier, 'seed': verif_seed,
        'level': mod.LEVEL, 'coverage': cov,
        'assumptions': getattr(mod, 'ASSUMPTIONS', []),
        'wall_s': round(wall, 2),
        'violations': new_violations,
    }
    os.makedirs(EVIDENCE_DIR, exist_ok=True)
    tmp = os.path.join(EVIDENCE_DIR, '%s.json.tmp' % prop)
    with open(tmp, 'w') as f:
        json.dump(ev, f, indent=1, sort_keys=True, default=str)
    os.replace(tmp, os.path.join(EVIDENCE_DIR, '%s.json' % prop))
    print('%s %s seed=%d: %d runs in %d families, %d distinct non-trivial, '
          '%d violations (%d new), %.1fs'
          % (prop, tier, verif_seed, evals, total['families'], len(total['keys']),
             total['nviol'], new_violations, wall))
    for e in harness_errors:
        print('HARNESS-ERROR %s' % e)
    if new_violations:
        return 1
    if harness_errors:
        return 2
    if evals == 0:
        print('HARNESS-ERROR nothing was evaluated')
        return 2
    return 0
