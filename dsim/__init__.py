"""dsim - deterministic simulation with fault injection for fgnt/lazy_dataset.

One process, one seeded scheduler.  Real threads of the library under test are
parked and released one at a time ("baton passing"); every choice of who runs,
every injected fault and every generated workload is derived from one integer.
See /verif/DESIGN.md.
"""
import os

# The library refuses to start worker pools unless these are set; the harness
# sets them before lazy_dataset is imported anywhere.
os.environ.setdefault('OMP_NUM_THREADS', '1')
os.environ.setdefault('MKL_NUM_THREADS', '1')
os.environ['OMP_NUM_THREADS'] = '1'
os.environ['MKL_NUM_THREADS'] = '1'

GUARD_ENV = 'LAZY_DATASET_VERIF'

import logging as _logging
_logging.getLogger('lazy_dataset').addHandler(_logging.NullHandler())
