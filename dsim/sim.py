"""Thread layer of the simulator: real threads, one baton, seeded choice of who runs.

Only two primitives are replaced for the duration of one simulated run:
the lock allocator (-> SimLock) and threading.Thread (-> SimThread).  CPython's
Condition / Semaphore / Event / RLock(py) / queue.Queue / _PySimpleQueue /
concurrent.futures all run as real code on top of them.

Yield points (the only places where the baton may change hands):
  * 'line' trace events of frames whose file is in the traced set,
  * every SimLock.acquire, every blocking wait, thread start / join / exit,
  * explicit Sim.yield_point()/work()/sleep() calls from the driver and from
    instrumented user functions.
"""
import os
import sys
import gc
import time
import queue
import random
import _thread
import threading
import contextlib
import concurrent.futures
import concurrent.futures.thread as cft
import concurrent.futures._base as cfb

_real_allocate = _thread.allocate_lock
_real_get_ident = _thread.get_ident
_RealThread = threading.Thread
_real_sleep = time.sleep
_real_monotonic = time.monotonic
_real_perf_counter = time.perf_counter
_real_time = time.time

SIM = None            # the active simulation (at most one per process)


class SimAbort(BaseException):
    """Raised inside simulated threads to unwind them when a run is aborted
    (deadlock, step cap, teardown)."""


class HarnessError(Exception):
    """The simulator itself is broken (never a property violation)."""


class TState:
    __slots__ = ('tid', 'name', 'role', 'gate', 'blocked_on', 'deadline',
                 'timed_out', 'finished', 'started', 'site', 'prio', 'what')

    def __init__(self, tid, name, role):
        self.tid = tid
        self.name = name
        self.role = role
        self.gate = _real_allocate()
        self.gate.acquire()
        self.blocked_on = None      # callable -> bool (True: may proceed)
        self.deadline = None
        self.timed_out = False
        self.finished = False
        self.started = False
        self.site = None            # (function name, line) of last traced line
        self.prio = 0.0
        self.what = None            # what it is blocked on (text)


class Sim:
    def __init__(self, sched=None, trace_files=(), max_steps=200000):
        sched = dict(sched or {})
        self.sched = sched
        self.policy = sched.get('policy', 'random')
        self.params = dict(sched.get('params') or {})
        # 'rel': a thread may also be pre-empted right after it released a lock
        # (e.g. between the last queue operation of a worker and its exit)
        self.release_yield = bool(sched.get('rel'))
        self.rng = random.Random(sched.get('seed', 0))
        ch = sched.get('choices')
        # sparse replay list: {decision index: index into runnable}
        self.replay = None if ch is None else {int(i): int(c) for i, c in ch}
        self.trace_files = frozenset(trace_files)
        self.max_steps = max_steps
        self.threads = []
        self.by_ident = {}
        self.current = None
        self.steps = 0
        self.switches = 0
        self.decisions = 0
        self.choices = []           # sparse [decision index, choice] (non-stay)
        self.now = 0.0
        self.aborting = False
        self.failure = None         # 'deadlock' | 'step_cap' | 'teardown'
        self.failure_phase = None
        self.blocked_report = None
        self.phase = 'run'
        self.seq = 0
        self.log = []
        self.sigacc = 1469598103934665603
        self.pairs = set()
        self.clock_jumps = 0
        self._in_switch = False
        self._code_cache = {}
        self._pct_points = None
        self.main = None
        self.yield_kinds = {}
        self.timeouts_fired = 0
        self.main_blocks = []       # (event seq, phase, what) when T0 had to block
        self.main_yields = []       # (event seq, phase) when T0 was runnable but not chosen

    # ------------------------------------------------------------ threads
    def register_main(self):
        ts = TState(0, 'T0', 'consumer')
        ts.started = True
        self.threads.append(ts)
        self.by_ident[_real_get_ident()] = ts
        self.current = ts
        self.main = ts
        self._init_prio(ts)
        return ts

    def new_thread(self, role='worker'):
        ts = TState(len(self.threads), 'T%d' % len(self.threads), role)
        self.threads.append(ts)
        self._init_prio(ts)
        return ts

    def _init_prio(self, ts):
        if self.policy == 'pct' and self.replay is None:
            ts.prio = self.rng.random() + 1.0

    def me(self):
        return self.by_ident.get(_real_get_ident())

    # ------------------------------------------------------------- events
    def event(self, kind, *data):
        me = self.by_ident.get(_real_get_ident())
        self.seq += 1
        ev = (self.seq, me.tid if me is not None else -1, kind) + data
        self.log.append(ev)
        return self.seq

    # --------------------------------------------------------- scheduling
    def runnable(self):
        out = []
        now = self.now
        for t in self.threads:
            if t.finished or not t.started:
                continue
            b = t.blocked_on
            if b is None or b():
                out.append(t)
            elif t.deadline is not None and t.deadline <= now:
                out.append(t)
        return out

    def timed_waiters(self):
        """Blocked threads whose wait has a deadline that has not passed yet:
        their timeout may fire at any decision point (another thread being slow
        is always a legal behaviour), chosen by the scheduler like a thread."""
        out = []
        now = self.now
        for t in self.threads:
            if t.finished or not t.started or t.deadline is None:
                continue
            b = t.blocked_on
            if b is not None and not b() and t.deadline > now:
                out.append(t)
        return out

    def _advance_clock(self):
        """No thread runnable: jump the virtual clock to the next deadline."""
        dl = [t.deadline for t in self.threads
              if t.started and not t.finished and t.deadline is not None]
        if not dl:
            return False
        nxt = min(dl)
        if nxt > self.now:
            self.now = nxt
            self.clock_jumps += 1
        return True

    def yield_point(self, kind='y'):
        if self.aborting:
            return
        me = self.by_ident.get(_real_get_ident())
        if me is None or me is not self.current or self._in_switch:
            return
        self.steps += 1
        if self.steps > self.max_steps:
            self._abort('step_cap')
            raise SimAbort()
        self._switch(me, kind)

    def work(self, units=1):
        """Simulated computation: advances the clock, may be pre-empted."""
        for _ in range(units):
            self.now += 0.001
            self.yield_point('work')

    def sleep(self, d):
        if self.aborting:
            return
        me = self.by_ident.get(_real_get_ident())
        if me is None:
            return
        self.block(lambda: False, deadline=self.now + max(d, 0.0), what='sleep')

    def block(self, cond, deadline=None, what=None):
        """Block the current thread until cond() or the virtual deadline.
        Returns True if cond() became true, False on timeout."""
        if self.aborting:
            raise SimAbort()
        me = self.by_ident.get(_real_get_ident())
        if me is None:
            raise HarnessError('block() from a thread the simulator does not own')
        me.blocked_on = cond
        me.deadline = deadline
        me.what = what
        if me is self.main and not cond():
            self.main_blocks.append((self.seq, self.phase, what))
        try:
            self._switch(me, 'block')
        finally:
            me.blocked_on = None
            me.deadline = None
            me.what = None
        return bool(cond())

    def _pick(self, r, me, tw=()):
        """r: runnable threads sorted by tid; tw: timed waiters whose timeout
        may be fired instead; len(r) + len(tw) >= 2."""
        i = self.decisions
        self.decisions += 1
        stay = me if me in r else r[0]
        cand = list(r) + list(tw)
        if self.replay is not None:
            c = self.replay.get(i)
            nxt = stay if c is None else cand[c % len(cand)]
        else:
            nxt = None
            if tw and self.rng.random() < self.params.get('timeout_p', 0.12):
                nxt = tw[self.rng.randrange(len(tw))]
            elif len(r) >= 2:
                nxt = self._policy_pick(r, me, stay)
            else:
                nxt = stay
        if nxt in tw:
            # fire its timeout: the clock jumps to the deadline
            self.now = max(self.now, nxt.deadline)
            self.timeouts_fired += 1
        if nxt is not stay:
            self.choices.append([i, cand.index(nxt)])
        if self.main in r and nxt is not self.main:
            self.main_yields.append((self.seq, self.phase))
        return nxt

    def _sub_policy(self):
        ph = self.params.get('phases')
        if ph:
            return ph.get(self.phase) or ph.get('default') or {'policy': 'random'}
        return None

    def _policy_pick(self, r, me, stay):
        rng = self.rng
        pol, par = self.policy, self.params
        sub = self._sub_policy()
        if sub is not None:
            pol, par = sub.get('policy', 'random'), sub
        if pol == 'random':
            return r[rng.randrange(len(r))]
        if pol == 'sticky':
            if me in r and rng.random() < par.get('p', 0.5):
                return me
            return r[rng.randrange(len(r))]
        if pol == 'starve':
            victim = par.get('victim', 'consumer')
            others = [t for t in r if t.role != victim]
            pool = others or r
            if me in pool and rng.random() < par.get('p', 0.5):
                return me
            return pool[rng.randrange(len(pool))]
        if pol == 'prio':
            role = par.get('role', 'consumer')
            first = [t for t in r if t.role == role]
            if first:
                return first[0]
            if me in r and rng.random() < par.get('p', 0.5):
                return me
            return r[rng.randrange(len(r))]
        if pol == 'pct':
            if self._pct_points is None:
                horizon = max(int(par.get('horizon', 400)), 1)
                self._pct_points = sorted(
                    rng.randrange(horizon) for _ in range(int(par.get('d', 2))))
                self._pct_low = 0.0
            while self._pct_points and self._pct_points[0] <= self.decisions:
                self._pct_points.pop(0)
                if me is not None:
                    self._pct_low -= 1.0
                    me.prio = self._pct_low
            return max(r, key=lambda t: (t.prio, -t.tid))
        raise HarnessError('unknown policy %r' % (pol,))

    def _switch(self, me, kind):
        self._in_switch = True
        try:
            r = self.runnable()
            if not r:
                if self._advance_clock():
                    r = self.runnable()
            if not r:
                self._abort('deadlock')
                raise SimAbort()
            tw = self.timed_waiters()
            if len(r) == 1 and not tw:
                nxt = r[0]
            else:
                nxt = self._pick(r, me, tw)
            if nxt is me:
                if me.deadline is not None and me.blocked_on is not None \
                        and not me.blocked_on():
                    me.timed_out = True
                return
            self.switches += 1
            site = me.site
            self.sigacc = ((self.sigacc ^ (me.tid * 8191 + nxt.tid * 131 +
                                           (site[1] if site else 0)))
                           * 1099511628211) & 0xFFFFFFFFFFFFFFFF
            if site is not None and nxt.site is not None:
                self.pairs.add((site, nxt.site))
            self.current = nxt
        finally:
            self._in_switch = False
        nxt.gate.release()
        me.gate.acquire()
        if self.aborting:
            raise SimAbort()

    def thread_exit(self, me):
        me.finished = True
        if self.aborting:
            self.current = self.main
            self.main.gate.release()
            return
        self._in_switch = True
        try:
            r = self.runnable()
            if not r and self._advance_clock():
                r = self.runnable()
            if not r:
                # everybody else is blocked for ever: wake main to report it
                self._abort('deadlock')
                self.current = self.main
                self.main.gate.release()
                return
            tw = self.timed_waiters()
            nxt = r[0] if (len(r) == 1 and not tw) else self._pick(r, None, tw)
            self.switches += 1
            self.current = nxt
        finally:
            self._in_switch = False
        nxt.gate.release()

    def _abort(self, why):
        if self.aborting:
            return
        self.aborting = True
        self.failure = why
        self.failure_phase = self.phase
        rep = []
        for t in self.threads:
            if t.started and not t.finished:
                rep.append({'thread': t.name, 'role': t.role,
                            'blocked': t.blocked_on is not None,
                            'on': t.what,
                            'site': list(t.site) if t.site else None})
        self.blocked_report = rep

    def unfinished(self):
        return [t for t in self.threads[1:] if t.started and not t.finished]

    def drain(self, what='drain'):
        """Main thread: let every other simulated thread run to its end."""
        if self.aborting:
            raise SimAbort()
        old = self.phase
        self.phase = what
        try:
            if self.unfinished():
                self.block(lambda: not self.unfinished(), what='drain')
        finally:
            if not self.aborting:
                self.phase = old

    def teardown(self):
        """Main thread, leaving the simulation: unwind whatever is left."""
        left = self.unfinished()
        if left and not self.aborting:
            self._abort('teardown')
        for t in left:
            if t.finished:
                continue
            self.current = t
            t.gate.release()
            self.main.gate.acquire()
        self.current = self.main

    # ------------------------------------------------------------ tracing
    def tracer(self, frame, event, arg):
        code = frame.f_code
        c = self._code_cache.get(code)
        if c is None:
            c = self._code_cache[code] = code.co_filename in self.trace_files
        if c:
            return self.local_tracer
        return None

    def local_tracer(self, frame, event, arg):
        if event == 'line':
            me = self.by_ident.get(_real_get_ident())
            if me is not None:
                me.site = (frame.f_code.co_name, frame.f_lineno)
                if not self.aborting:
                    self.yield_point('line')
        return self.local_tracer

    def signature(self):
        return '%016x' % self.sigacc


# ---------------------------------------------------------------- SimLock
_BUILDING = False


@contextlib.contextmanager
def building():
    """Objects constructed inside this block get simulator-aware locks although
    no simulation is active yet: a dataset is often built first and consumed by
    simulated threads later, and a plain lock created in between would block a
    simulated thread for real (nobody would hold the baton).  Outside a
    simulation such a lock is a plain flag (single harness thread)."""
    if not begin_building():
        yield
        return
    try:
        yield
    finally:
        end_building()


_BUILD_SAVED = None


def begin_building():
    global _BUILDING, _BUILD_SAVED
    if SIM is not None or _BUILDING:
        return False
    _BUILD_SAVED = (threading.Lock, threading._allocate_lock, threading._CRLock)
    _BUILDING = True
    threading.Lock = SimLock
    threading._allocate_lock = SimLock
    threading._CRLock = None
    return True


def end_building():
    """idempotent"""
    global _BUILDING, _BUILD_SAVED
    if not _BUILDING:
        return
    _BUILDING = False
    threading.Lock, threading._allocate_lock, threading._CRLock = _BUILD_SAVED
    _BUILD_SAVED = None


class SimLock:
    """Replacement for _thread.lock; every acquire is a yield point."""

    def __init__(self):
        self._locked = False
        self._real = None
        sim = SIM
        if sim is None and _BUILDING:
            return
        if sim is None or sim.by_ident.get(_real_get_ident()) is None:
            # created by a thread the simulator does not own (e.g. a helper
            # thread of the harness): behave as the real thing
            self._real = _real_allocate()

    def acquire(self, blocking=True, timeout=-1):
        if self._real is not None:
            return self._real.acquire(blocking, timeout)
        sim = SIM
        if sim is None or sim.aborting or \
                sim.by_ident.get(_real_get_ident()) is None:
            if self._locked:
                if not blocking or timeout == 0:
                    return False
                raise SimAbort()
            self._locked = True
            return True
        sim.yield_point('acq')
        if self._locked:
            if not blocking or timeout == 0:
                return False
            deadline = None
            if timeout is not None and timeout > 0:
                deadline = sim.now + timeout
            ok = sim.block(lambda: not self._locked, deadline, what='lock')
            if not ok:
                return False
        self._locked = True
        return True

    __enter__ = acquire

    def release(self):
        if self._real is not None:
            return self._real.release()
        if not self._locked:
            raise RuntimeError('release unlocked lock')
        self._locked = False
        sim = SIM
        if sim is not None and sim.release_yield and not sim.aborting and \
                sim.by_ident.get(_real_get_ident()) is not None:
            sim.yield_point('rel')

    def __exit__(self, *a):
        self.release()

    def locked(self):
        if self._real is not None:
            return self._real.locked()
        return self._locked

    def _at_fork_reinit(self):
        self._locked = False


# -------------------------------------------------------------- SimThread
class SimThread(_RealThread):
    _sim_ts = None
    sim_role = 'worker'

    def start(self):
        sim = SIM
        if sim is None:
            raise HarnessError('SimThread.start outside a simulation')
        if self._sim_ts is not None:
            raise RuntimeError('threads can only be started once')
        ts = sim.new_thread(self.sim_role)
        self._sim_ts = ts
        if sim.aborting:
            ts.started = True
            ts.finished = True
            return
        th = self

        def boot():
            ident = _real_get_ident()
            sim.by_ident[ident] = ts
            ts.gate.acquire()           # wait for the baton
            if sim.aborting:
                ts.finished = True
                sim.current = sim.main
                sim.main.gate.release()
                return
            threading._active[ident] = th
            sys.settrace(sim.tracer)
            try:
                th.run()
            except SimAbort:
                pass
            except BaseException as e:   # like threading.excepthook: record
                sim.event('thread_exc', type(e).__name__)
            finally:
                sys.settrace(None)
                threading._active.pop(ident, None)
                sim.thread_exit(ts)

        ts.started = True
        _thread.start_new_thread(boot, ())
        sim.event('spawn', ts.name)
        sim.yield_point('spawn')

    def join(self, timeout=None):
        ts = self._sim_ts
        if ts is None:
            raise RuntimeError('cannot join thread before it is started')
        sim = SIM
        if sim is None or sim.aborting or ts.finished:
            return
        me = sim.me()
        if me is ts:
            raise RuntimeError('cannot join current thread')
        sim.yield_point('join')
        if not ts.finished:
            deadline = None
            if timeout is not None:
                deadline = sim.now + max(timeout, 0)
            sim.block(lambda: ts.finished, deadline, what='join ' + ts.name)

    def is_alive(self):
        ts = self._sim_ts
        return ts is not None and not ts.finished

    def __hash__(self):
        ts = self._sim_ts
        return ts.tid if ts is not None else 0

    def __eq__(self, other):
        return self is other


_MISSING = object()
_THREAD_SEAMS = ('start', 'join', 'is_alive', '__hash__', '__eq__', '_sim_ts', 'sim_role')


# ------------------------------------------------------------ time seams
def _sim_sleep(d):
    sim = SIM
    if sim is not None and sim.me() is not None:
        sim.sleep(d)
    else:
        _real_sleep(d)


def _mk_clock(real):
    def clock():
        sim = SIM
        if sim is not None and sim.me() is not None:
            return 1000.0 + sim.now
        return real()
    return clock


_sim_monotonic = _mk_clock(_real_monotonic)
_sim_perf_counter = _mk_clock(_real_perf_counter)
_sim_time = _mk_clock(_real_time)


@contextlib.contextmanager
def simulation(sim, extra_patches=()):
    """Install the seams for one simulated run.  The calling thread becomes
    simulated thread T0 (role 'consumer')."""
    global SIM
    if SIM is not None:
        raise HarnessError('nested simulation')
    saved = dict(
        Lock=threading.Lock, alloc=threading._allocate_lock,
        cr=threading._CRLock, Thread=threading.Thread,
        sq=queue.SimpleQueue, gsl=cft._global_shutdown_lock,
        sleep=time.sleep, mono=time.monotonic, perf=time.perf_counter,
        tt=time.time, thr_time=threading._time, q_time=queue.time,
    )
    gc_was = gc.isenabled()
    gc.disable()
    SIM = sim
    threading.Lock = SimLock
    threading._allocate_lock = SimLock
    threading._CRLock = None
    threading.Thread = SimThread
    # Thread subclasses that were defined before the simulation started (at
    # import time of the code under test) inherit from the real class: give
    # that class the simulated behaviour for the duration of the run
    base_saved = {}
    for k in _THREAD_SEAMS:
        if os.environ.get('DSIM_DEBUG_NO_BASE_THREAD_SEAM'):
            break       # debugging aid: shows what an unsimulated thread does to a run
        base_saved[k] = _RealThread.__dict__.get(k, _MISSING)
        setattr(_RealThread, k, SimThread.__dict__[k])
    queue.SimpleQueue = queue._PySimpleQueue
    cft._global_shutdown_lock = SimLock()
    time.sleep = _sim_sleep
    time.monotonic = _sim_monotonic
    time.perf_counter = _sim_perf_counter
    time.time = _sim_time
    threading._time = _sim_monotonic
    queue.time = _sim_monotonic
    undo = []
    for obj, name, val in extra_patches:
        undo.append((obj, name, getattr(obj, name)))
        setattr(obj, name, val)
    sim.register_main()
    old_trace = sys.gettrace()
    sys.settrace(sim.tracer)
    try:
        yield sim
    finally:
        sys.settrace(None)
        try:
            sim.teardown()
        finally:
            sys.settrace(old_trace)
            SIM = None
            for obj, name, val in reversed(undo):
                setattr(obj, name, val)
            threading.Lock = saved['Lock']
            threading._allocate_lock = saved['alloc']
            threading._CRLock = saved['cr']
            threading.Thread = saved['Thread']
            for k, v in base_saved.items():
                if v is _MISSING:
                    delattr(_RealThread, k)
                else:
                    setattr(_RealThread, k, v)
            queue.SimpleQueue = saved['sq']
            cft._global_shutdown_lock = saved['gsl']
            time.sleep = saved['sleep']
            time.monotonic = saved['mono']
            time.perf_counter = saved['perf']
            time.time = saved['tt']
            threading._time = saved['thr_time']
            queue.time = saved['q_time']
            if gc_was:
                gc.enable()
