"""Helpers for history-machine checks: cases whose schedule is an explicit
operation list (interleaving of iterator steps, client operations, faults and
adversary steps), generated from the run's PRNG and stored in the case, so the
case itself is the replay file and ddmin over the list is the minimiser."""
import json
import hashlib


def clone(case):
    return json.loads(json.dumps(case))


def hkey(obj):
    return hashlib.blake2b(json.dumps(obj, sort_keys=True, default=str).encode(),
                           digest_size=8).hexdigest()


def shrink_ops(case, key='ops', fix=None):
    """Yield variants with chunks of case[key] removed (largest chunks first),
    then single operations.  `fix` may repair / reject a candidate."""
    ops = case[key]
    n = len(ops)
    size = n // 2
    seen = set()
    while size >= 1:
        for s in range(0, n, size):
            cand_ops = ops[:s] + ops[s + size:]
            if len(cand_ops) == n:
                continue
            k = hkey(cand_ops)
            if k in seen:
                continue
            seen.add(k)
            c = clone(case)
            c[key] = cand_ops
            if fix is not None:
                c = fix(c)
                if c is None:
                    continue
            yield c
        size //= 2


def viol(cls, sig, msg):
    return {'cls': cls, 'sig': sig, 'msg': msg}


def outcome(case, *, nontrivial, key, violations, fired=None, probes=None,
            stats=None, sample=None, digest_extra=None):
    d = hkey([case, violations, digest_extra])
    return {'violations': violations, 'nontrivial': nontrivial, 'key': key,
            'fired': fired or {}, 'probes': probes or {}, 'stats': stats or {},
            'digest': d, 'choices': None, 'sample': sample}
