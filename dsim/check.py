"""CLI: python -m dsim.check <property id> --tier quick|thorough"""
import sys
from dsim import runner

if __name__ == '__main__':
    runner.reexec_with_hashseed()
    sys.exit(runner.main())
