"""C14 - exception-based filtering drops exactly the failing examples."""
import warnings

from lazy_dataset import core as ldc

from .. import hist, pargen
from .. import workload as W

PROP = 'C14'
LEVEL = 'fault_enumeration'
RULE = ('family = one generated indexable pipeline (source, 1-3 stages from map / '
        'slice / batch / items / concatenate / zip / sort / one-time shuffle / eager '
        'filter, the raising stage at depth 0-2 below the catch) followed by '
        'catch(E) with E a single type, a tuple or a subclass, optionally a downstream '
        'map; fault sequences: EVERY single failing position, then pairs and random '
        'subsets, with exception kinds inside and outside E; value and items() '
        'iteration, full iteration twice and stop after k; in 20% of the pipelines a '
        'per-epoch reshuffle lies directly below the catch, and some plans contain '
        'examples that fail in one of the two passes only. Oracle: position by '
        'position evaluation of an independent build of the upstream pipeline '
        '(no catch): survivors in order, the first foreign exception after exactly the '
        'surviving predecessors and as the very injected object. Plus: lazy filter, '
        'eager filter and FilterException+catch agree for the same predicate. 5% of the '
        'families put the catch (or prefetch(1, b, catch_filter_exception)) over an input '
        'without random access (lazy filter, buffer-local shuffle, unbatch): a loud refusal '
        'or exactly the examples whose evaluation did not raise, never a shortened stream. '
        'Non-trivial = a fault fired; distinct = distinct (pipeline, fault plan, mode).')
PROBES = ['refused_loudly_when_iterated', 'second_pass_differs_from_first', 'foreign_exception_propagated', 'caught_at_first_position',
          'caught_at_last_position', 'several_positions_dropped', 'subclass_caught',
          'items_iteration_with_drop', 'cache_below_catch_second_pass',
          'survivors_equal_the_abstract_model']
BUDGET = {
    'quick': {'families': 20000, 'wall_cap': 420, 'shrink_s': 10},
    'thorough': {'families': 200000, 'wall_cap': 5400, 'shrink_s': 30},
}
COMPONENTS = {
    'real': ['lazy_dataset.core.CatchExceptionDataset, FilterDataset, Dataset.filter(lazy=False), '
             'ItemsDataset and every upstream stage'],
    'replaced_by_simulator': ['which evaluations fail and with what (seeded / enumerated fault plan '
                              'read by instrumented user functions)'],
    'stub': [],
}
ASSUMPTIONS = ['single thread, no schedule: the fault plan is the whole search space',
               'a failing example fails deterministically on every evaluation']

KINDS = ['filter', 'filter_sub', 'filter_bare', 'value', 'key', 'index', 'notimpl', 'base']
CATCHES = ['filter', 'filter', 'value', ['filter', 'key'], ['value', 'key'], 'filter_sub',
           ['filter', 'index'], 'index', ['value', 'notimpl'], [], 'base', ['filter', 'base'],
           'stopiter', ['value', 'stopiter']]


def gen_desc(rng):
    for _ in range(200):
        n = rng.randrange(0, 8)
        desc = {'source': {'kind': rng.choice(['list', 'dict']), 'n': n},
                'stages': [{'op': 'map', 'id': 'u0'}]}
        if rng.random() < 0.12:
            desc['stages'].append({'op': 'falsy', 'id': 'uf', 'mod': rng.randrange(2, 4),
                                   'rem': rng.randrange(0, 2),
                                   'val': rng.choice(['none', 'none', 'zero', 'emptylist', 'false', 'excobj',
                                                      'filterobj'])})
        a = pargen.abs_eval(desc)
        for j in range(rng.randrange(0, 3)):
            for _try in range(6):
                op = rng.choice(['map', 'map', 'slice', 'batch', 'items', 'concat',
                                 'zip', 'sort', 'shuffle', 'filter_eager', 'cache', 'intersperse'])
                sts = _mk(rng, op, a, 'u%d' % (j + 1), 100 * (j + 1))
                b = pargen.abs_apply(a, sts[0])
                if b is not None and b.indexable:
                    desc['stages'] += sts
                    a = b
                    break
        if a.sized and a.findexable:
            if rng.random() < 0.2 and a.indexable:
                # a per-epoch reshuffle directly below the catch: every pass
                # over the same catch object sees other positions
                st = {'op': 'reshuffle', 'seed': rng.randrange(1 << 16)}
                b = pargen.abs_apply(a, st)
                if b is not None:
                    desc['stages'].append(st)
                    a = b
            return desc, a
    raise RuntimeError('no pipeline')


def _mk(rng, op, a, sid, offset):
    n = a.n if a.n is not None else 4
    if op == 'filter_eager':
        return [{'op': 'filter', 'id': sid, 'lazy': False,
                 'mod': rng.randrange(2, 4), 'rem': rng.randrange(0, 2)}]
    if op == 'map':
        return [{'op': 'map', 'id': sid}]
    if op == 'cache':
        # a memory cache below the catch: the second pass is served from it
        # (examples that raised are evaluated, and raise, again)
        return [{'op': 'cache'}]
    if op == 'slice':
        return [{'op': 'slice', 'sl': pargen._rand_slice(rng, n)}]
    if op == 'batch':
        return [{'op': 'batch', 'bs': rng.randrange(1, 4), 'drop_last': False}]
    if op == 'items':
        return [{'op': 'items'}]
    if op == 'concat':
        return [{'op': 'concat', 'n': rng.randrange(1, 4),
                 'kind': 'dict' if a.keys else 'list', 'offset': offset, 'map': sid}]
    if op == 'intersperse':
        return [{'op': 'intersperse', 'n': rng.choice([n, 1, 2, 3]) or 1,
                 'kind': 'dict' if a.keys else 'list', 'offset': offset, 'map': sid}]
    if op == 'zip':
        return [{'op': 'zip', 'n': n, 'offset': offset + 50, 'map': sid}]
    if op == 'sort':
        return [{'op': 'sort', 'id': sid, 'reverse': rng.random() < 0.3}]
    if op == 'shuffle':
        return [{'op': 'shuffle', 'seed': rng.randrange(1000)}]
    raise ValueError(op)


def gen_refusable(rng):
    """catch() over an input the library cannot index (a lazy filter or a
    buffer-local shuffle below the raising stage): a loud refusal is fine, an
    answer must be the right one - never a silently shortened stream"""
    n = rng.randrange(1, 9)
    base = {'mode': 'refusable', 'n': n, 'source': rng.choice(['list', 'dict']),
            'lazy': rng.choice(['filter', 'filter', 'local_shuffle', 'unbatch']),
            'mod': rng.randrange(2, 4), 'rem': rng.randrange(0, 2),
            'catch': rng.choice(['filter', 'filter', 'value', ['filter', 'key'], 'filter_sub',
                                 ['value', 'filter']]),
            'warn': rng.random() < 0.25, 'via': rng.choice(['catch', 'catch', 'prefetch1'])}
    caught = W.catch_spec_types(base['catch'])
    kinds = [k for k in ('value', 'filter', 'filter_sub', 'key') if issubclass(W.EXC_KINDS[k], caught)]
    cases = []
    for p in range(n):
        cases.append(dict(base, faults=[{'stage': 'u1', 'pos': p, 'exc': rng.choice(kinds)}]))
    for _ in range(2):
        cases.append(dict(base, faults=[{'stage': 'u1', 'pos': rng.randrange(n), 'exc': rng.choice(kinds)}
                                        for _k in range(rng.randrange(2, 4))]))
    cases.append(dict(base, faults=[]))
    return cases


def run_refusable(case):
    import lazy_dataset
    n = case['n']
    spec = case['catch']
    caught = W.catch_spec_types(spec)
    violations, probes = [], {}
    runs = []
    with warnings.catch_warnings(record=True):
        warnings.simplefilter('always')
        ctx = W.set_ctx(W.Ctx(faults=case['faults']))
        try:
            if case['source'] == 'dict':
                src = lazy_dataset.new({'k%d' % i: {'src': i} for i in range(n)})
            else:
                src = lazy_dataset.new([{'src': i} for i in range(n)])
            pred = W.FilterFn('f', case['mod'], case['rem'])
            up = src.map(W.MapFn('u0'))
            if case['lazy'] == 'filter':
                up = up.filter(pred, lazy=True)
                ids = [i for i in range(n) if pred.verdict_of((i,))]
            elif case['lazy'] == 'local_shuffle':
                up = up.shuffle(reshuffle=True, buffer_size=1)     # buffer of one: source order
                ids = list(range(n))
            else:
                up = up.batch(2).unbatch()
                ids = list(range(n))
            up = up.map(W.MapFn('u1'))
            built = None
            try:
                arg = W.catch_spec_to_arg(spec) or ldc.FilterException
                if case['via'] == 'catch':
                    ds = up.catch(arg, warn=bool(case['warn']))
                else:
                    ds = up.prefetch(1, 2, catch_filter_exception=True if spec == 'filter' else arg)
            except Exception as e:
                built = type(e).__name__
                probes['refused_at_construction'] = 1
            ctx.armed = True
            failing = {f['pos'] for f in case['faults']}
            want = [W.norm({'f': 'u1', 'x': {'f': 'u0', 'x': {'src': i}}}) for i in ids
                    if i not in failing]
            if built is None:
                for rep in range(2):
                    out, end = [], 'exhausted'
                    try:
                        for x in ds:
                            out.append(W.norm(x))
                    except BaseException as e:
                        end = 'injected' if any(e is r for r in ctx.raised) else 'refused'
                        err = '%s: %s' % (type(e).__name__, W.short(str(e), 80))
                    runs.append((out, end))
                    if end == 'refused':
                        probes['refused_loudly_when_iterated'] = 1
                        if out != want[:len(out)]:
                            violations.append(hist.viol(
                                'wrong_examples_before_refusal', 'wrong_examples_before_refusal:' + case['via'],
                                'pass %d delivered %s and then refused (%s); the pipeline yields %s'
                                % (rep, W.short(out), err, W.short(want))))
                        break
                    if end == 'injected':
                        violations.append(hist.viol(
                            'kept_failing_example', 'selected_exception_propagated:non_indexable:' + case['via'],
                            'pass %d: an exception of a selected type raised by the stage below the '
                            'catch reached the consumer (%s) after %d examples' % (rep, err, len(out))))
                        break
                    probes['non_indexable_input_answered'] = 1
                    if out != want:
                        violations.append(hist.viol(
                            'dropped_good_example' if len(out) < len(want) else 'wrong_examples',
                            'non_indexable_input_answered_wrongly:' + case['via'],
                            'pass %d over an input without random access ended normally with %d '
                            'examples %s; the examples whose evaluation did not raise are %d: %s'
                            % (rep, len(out), W.short(out), len(want), W.short(want))))
                        break
        finally:
            fired_faults = dict(ctx.fired)
            W.set_ctx(None)
    fired = {'mode_refusable': 1, 'via_' + case['via']: 1, 'lazy_' + case['lazy']: 1}
    fired.update(fired_faults)
    return hist.outcome(case, nontrivial=True, key=hist.hkey(case), violations=violations,
                        fired=fired, probes=probes, sample={'case': case, 'runs': W.short(runs, 200)},
                        digest_extra=[runs, built])


def gen(rng, tier, index):
    if rng.random() < 0.05:
        return gen_refusable(rng)
    if rng.random() < 0.12:
        return [{'mode': 'agree', 'n': rng.randrange(0, 9),
                 'source': rng.choice(['list', 'dict']),
                 'mod': rng.randrange(2, 5), 'rem': rng.randrange(0, 3),
                 'items': rng.random() < 0.4,
                 'ret': rng.choice(['bool', 'bool', 'list', 'str', 'int', 'npbool', 'none'])}]
    desc, a = gen_desc(rng)
    reshuffled = desc['stages'][-1]['op'] == 'reshuffle'
    if reshuffled:
        # provenance of the elements is that of the stage below the reshuffle
        below = pargen.abs_eval({'source': desc['source'], 'stages': desc['stages'][:-1]})
        a.elems_below = below.elems
    ids = sorted({i for e in ((a.elems if not reshuffled else a.elems_below) or []) for i in e})
    sites = [s['id'] if 'id' in s else s.get('map') for s in desc['stages']
             if s['op'] in ('map',) or s.get('map')]
    sites = [s for s in sites if s]
    catch = rng.choice(CATCHES)
    # a StopIteration can only be judged where it is caught: one that is not
    # arrives as RuntimeError (PEP 479) out of the library's generators
    KINDS_ = KINDS + (['stopiter', 'stopiter'] if 'stopiter' in
                      (catch if isinstance(catch, list) else [catch]) else [])
    # key iteration of catch() looks examples up by key: with duplicate keys
    # (index lists with repeats) the library refuses loudly, not generated
    firsts = [e[0] for e in ((a.elems if not reshuffled else a.elems_below) or []) if e]
    items = bool(a.items) and rng.random() < 0.4 and len(set(firsts)) == len(firsts) \
        and not any(s_['op'] == 'falsy' for s_ in desc['stages'])
    down = rng.random() < 0.3
    plans = []
    if ids:
        site = rng.choice(sites)
        kind = rng.choice(KINDS_)
        plans += [[{'stage': site, 'pos': p, 'exc': kind}] for p in ids]
        for _ in range(4):
            k = rng.randrange(2, 5)
            plans.append([{'stage': rng.choice(sites), 'pos': rng.choice(ids),
                           'exc': rng.choice(KINDS_)} for _ in range(k)])
    plans.append([])
    if ids and sites:
        # every example fails with the same kind (nothing, or everything, is left)
        site_all = rng.choice(sites)
        kind_all = rng.choice(KINDS_)
        plans.append([{'stage': site_all, 'pos': p, 'exc': kind_all} for p in ids])
    if ids:
        # examples that fail in one pass only (flaky loader)
        for _ in range(2):
            plans.append([{'stage': rng.choice(sites), 'pos': rng.choice(ids),
                           'exc': rng.choice(KINDS_), 'pass': rng.randrange(2)}
                          for _k in range(rng.randrange(1, 3))])
    cases = []
    nout = len((a.elems if not reshuffled else a.elems_below) or [])
    cached = any(s_['op'] == 'cache' for s_ in desc['stages'])
    for plan in plans:
        cases.append({'mode': 'catch', 'desc': desc, 'catch': catch, 'faults': plan,
                      'items': items, 'down': down, 'warn': rng.random() < 0.25,
                      'stop_k': rng.randrange(0, nout + 1) if rng.random() < 0.3 else None})
        if cached and any('pass' in f for f in plan):
            # with a cache the second pass depends on how far the first one
            # went; the reference evaluates every position, so does the run
            cases[-1]['stop_k'] = None
    return cases


class TruthyPred:
    """the same predicate, answering with a truthy / falsy value that is not a
    bool (what `lambda ex: ex['tags']` or a numpy comparison returns)"""

    def __init__(self, pred, ret):
        self.pred, self.ret = pred, ret

    def __call__(self, x):
        import numpy as _np
        v = bool(self.pred(x))
        ids = W.src_ids(x)
        k = (ids[0] % 3 + 1) if ids else 1
        if self.ret == 'list':
            return ['t'] * k if v else []          # ragged containers
        if self.ret == 'str':
            return 'yes' * k if v else ''
        if self.ret == 'int':
            return k if v else 0
        if self.ret == 'npbool':
            return _np.bool_(v)
        if self.ret == 'none':
            return object() if v else None
        return v

    def verdict_of(self, ids):
        return self.pred.verdict_of(ids)


class RaiseIfNot:
    def __init__(self, pred):
        self.pred = pred

    def __call__(self, x):
        if not self.pred.verdict_of(W.src_ids(x)):
            raise ldc.FilterException(W.src_ids(x))
        return x


def run_agree(case):
    import lazy_dataset
    n = case['n']
    W.set_ctx(W.Ctx())
    try:
        def src():
            if case['source'] == 'dict':
                return lazy_dataset.new({'k%d' % i: {'src': i} for i in range(n)})
            return lazy_dataset.new([{'src': i} for i in range(n)])
        pred = W.FilterFn('f', case['mod'], case['rem'])
        if case.get('ret', 'bool') != 'bool':
            pred = TruthyPred(pred, case['ret'])
        a = src().filter(pred, lazy=True)
        b = src().filter(pred, lazy=False)
        c = src().map(RaiseIfNot(pred)).catch()
        if case['items'] and case['source'] == 'dict':
            a, b, c = a.items(), b.items(), c.items()
        la, lb, lc = [W.norm(x) for x in a], [W.norm(x) for x in b], [W.norm(x) for x in c]
    finally:
        W.set_ctx(None)
    v = []
    if not (la == lb == lc):
        v.append(hist.viol('filter_modes_disagree', 'filter_modes_disagree',
                           'lazy filter %s, eager filter %s, FilterException+catch %s'
                           % (W.short(la), W.short(lb), W.short(lc))))
    return hist.outcome(case, nontrivial=len(la) < n, key=hist.hkey(case), violations=v,
                        fired={'mode_agree': 1}, sample={'case': case, 'selected': len(la)},
                        digest_extra=[la, lb, lc])


def run(case):
    if case['mode'] == 'agree':
        return run_agree(case)
    if case['mode'] == 'refusable':
        return run_refusable(case)
    desc = case['desc']
    spec = case['catch']
    caught = W.catch_spec_types(spec)
    violations, probes = [], {}
    with warnings.catch_warnings(record=True):
        warnings.simplefilter('always')    # recorded, not printed; never 'ignore': dependencies inspect warnings
        # --- reference: position by position on an independent build
        ctx = W.set_ctx(W.Ctx(faults=case['faults']))
        ref_build = W.build(desc)
        n = len(ref_build)
        ctx.armed = True
        per_pass = []
        for rep in range(2):
            ctx.pass_index = rep
            if rep == 0 and case['stop_k'] == 0:
                # the consumer closes the iterator before the first next():
                # nothing is evaluated and no permutation is drawn
                per_pass.append(([], None, []))
                continue
            # an equal-seeded reshuffle below the catch draws once per pass
            ref_up = ref_build.copy(freeze=True) if desc['stages'][-1]['op'] == 'reshuffle' \
                else ref_build
            expected, terminal = [], None
            dropped = []
            for i in range(n):
                try:
                    v = ref_up[i]
                except caught as e:
                    dropped.append(i)
                    if type(e) is W.InjectedFilterSub and ldc.FilterException in caught:
                        probes['subclass_caught'] = 1
                    continue
                except BaseException as e:
                    terminal = (W.exc_kind_of(e), W.norm(e.args))
                    break
                if case['down']:
                    v = {'f': 'dn', 'x': v}
                # keys are a function of the provenance ('k<first source id>')
                expected.append(W.norm(('k%d' % W.src_ids(v)[0], v)
                                       if case['items'] else v))
            per_pass.append((expected, terminal, dropped))
        expected, terminal, dropped = per_pass[0]
        # --- system under test
        ctx = W.set_ctx(W.Ctx(faults=case['faults']))
        ds = W.build(desc).catch(W.catch_spec_to_arg(spec), warn=bool(case.get('warn')))
        if case['down']:
            ds = ds.map(W.MapFn('dn'))
        if case['items']:
            ds = ds.items()
        ctx.armed = True
        runs = []
        raised_in_pass = []
        raised_ids_in_pass = []
        for rep in range(2):
            ctx.pass_index = rep
            mark = len(ctx.log)
            out, term, same = [], None, None
            it = iter(ds)
            try:
                k = 0
                while True:
                    if case['stop_k'] is not None and rep == 0 and k == case['stop_k']:
                        W.close_iter(it)
                        term = ('stopped',)
                        break
                    out.append(W.norm(next(it)))
                    k += 1
            except StopIteration:
                pass
            except BaseException as e:
                term = (W.exc_kind_of(e), W.norm(e.args))
                same = any(e is r for r in ctx.raised)
            runs.append((out, term, same))
            raised_in_pass.append([e[5] for e in ctx.log[mark:] if e[2] == 'raise'])
            raised_ids_in_pass.append({i_ for e in ctx.log[mark:] if e[2] == 'raise' for i_ in e[4]})
        fired = dict(ctx.fired)
        W.set_ctx(None)
    tag = 'items' if case['items'] else 'values'
    for rep, (out, term, same) in enumerate(runs):
        # independent of the reference (which is built from the same stages): when
        # every exception raised during the pass is of a selected type, the pass
        # cannot end with an error, whatever lies between the raising stage and
        # the catch
        kinds_ = raised_in_pass[rep]
        if kinds_ and caught and term not in (None, ('stopped',)) and \
                all(issubclass(W.EXC_KINDS[k_], caught) for k_ in kinds_):
            violations.append(hist.viol(
                'caught_exception_escaped', 'caught_exception_escaped:%s:%s' % (tag, kinds_[0]),
                'iteration %d: only exceptions of selected types were raised (%s), yet the '
                'iteration ended with %s' % (rep, sorted(set(kinds_)), term)))
            break
        # also independent of the reference: with only selected types raised, what is
        # delivered are exactly the elements of the pipeline description (abstract
        # interpreter) that contain no source example whose evaluation raised
        # (not with a cache below the catch and examples that fail in one pass only:
        # an occurrence served from the cache does not fail while another
        # occurrence of the same source example does)
        flaky_cached = any('pass' in f_ for f_ in case['faults']) and \
            any(s_['op'] == 'cache' for s_ in desc['stages'])
        if caught and term in (None, ('stopped',)) and not flaky_cached and \
                all(issubclass(W.EXC_KINDS[k_], caught) for k_ in kinds_):
            shuffled = desc['stages'][-1]['op'] == 'reshuffle'
            am = pargen.abs_eval({'source': desc['source'],
                                  'stages': desc['stages'][:-1] if shuffled else desc['stages']})
            if am is not None and am.elems is not None:
                model = [tuple(sorted(e_)) for e_ in am.elems
                         if not (set(e_) & raised_ids_in_pass[rep])]
                got_ids = [tuple(sorted(W.src_ids(x_))) for x_ in out]
                if shuffled:
                    bad_ = term is None and sorted(got_ids) != sorted(model)
                elif term == ('stopped',):
                    # (examples beyond the stop point were never evaluated: the
                    # delivered ones are a prefix of the model without them)
                    bad_ = got_ids != [m_ for m_ in model][:len(got_ids)]
                else:
                    bad_ = got_ids != model
                if bad_:
                    violations.append(hist.viol(
                        'delivered_differs_from_model', 'delivered_differs_from_model:%s' % tag,
                        'iteration %d delivered the source examples %s; the pipeline description '
                        'without the examples whose evaluation raised (%s) yields %s'
                        % (rep, got_ids[:8], sorted(raised_ids_in_pass[rep]), model[:8])))
                    break
                probes['survivors_equal_the_abstract_model'] = 1
        expected, terminal, dropped = per_pass[rep]
        exp_out, exp_term = expected, terminal
        if term == ('stopped',):
            exp_out = expected[:case['stop_k']]
            if len(expected) < case['stop_k']:
                exp_term = terminal
            else:
                exp_term = ('stopped',)
                if terminal is not None and len(expected) == case['stop_k']:
                    # stopping exactly where the foreign error is due: both fine
                    pass
        if out != exp_out:
            n_ = min(len(out), len(exp_out))
            i = next((j for j in range(n_) if out[j] != exp_out[j]), n_)
            kind = 'kept_failing_example' if len(out) > len(exp_out) else \
                ('dropped_good_example' if len(out) < len(exp_out) else 'wrong_example')
            violations.append(hist.viol(
                kind, '%s:%s' % (kind, tag),
                'iteration %d: got %d examples, expected %d (positions %s raise a '
                'caught type); first difference at %d: %s vs %s'
                % (rep, len(out), len(exp_out), dropped, i,
                   W.short(out[i] if i < len(out) else '<end>', 100),
                   W.short(exp_out[i] if i < len(exp_out) else '<end>', 100))))
            break
        if term != exp_term:
            cls = 'foreign_exception_swallowed' if term is None else \
                ('spurious_exception' if exp_term is None else 'wrong_exception')
            violations.append(hist.viol(
                cls, '%s:%s' % (cls, tag),
                'iteration %d ended with %s after %d examples, expected %s'
                % (rep, term, len(out), exp_term)))
            break
        if term is not None and term != ('stopped',) and term[0] in W.EXC_KINDS \
                and same is False:
            violations.append(hist.viol(
                'exception_not_same_object', 'exception_not_same_object:' + tag,
                'a foreign exception was replaced by an equal copy'))
            break
    expected, terminal, dropped = per_pass[0]
    if any(s_['op'] == 'cache' for s_ in desc['stages']) and fired:
        probes['cache_below_catch_second_pass'] = 1
    if per_pass[0][2] != per_pass[1][2] or per_pass[0][0] != per_pass[1][0]:
        probes['second_pass_differs_from_first'] = 1
    if terminal is not None:
        probes['foreign_exception_propagated'] = 1
    if dropped:
        if 0 in dropped:
            probes['caught_at_first_position'] = 1
        if n - 1 in dropped:
            probes['caught_at_last_position'] = 1
        if len(dropped) > 1:
            probes['several_positions_dropped'] = 1
        if case['items']:
            probes['items_iteration_with_drop'] = 1
    return hist.outcome(
        case, nontrivial=bool(fired), key=hist.hkey(case), violations=violations,
        fired=fired, probes=probes, stats={'positions': n},
        sample={'case': case, 'dropped_positions': dropped, 'terminal': terminal,
                'delivered': len(runs[0][0])},
        digest_extra=[runs, expected, terminal])


def shrink(case):
    if case['mode'] == 'refusable':
        for i in range(len(case['faults'])):
            c = hist.clone(case)
            del c['faults'][i]
            yield c
        if case['n'] > 1:
            c = hist.clone(case)
            c['n'] -= 1
            c['faults'] = [f for f in c['faults'] if f['pos'] < c['n']]
            yield c
        return
    if case['mode'] != 'catch':
        if case['n'] > 0:
            c = hist.clone(case)
            c['n'] -= 1
            yield c
        return
    for i in range(len(case['faults'])):
        c = hist.clone(case)
        del c['faults'][i]
        yield c
    desc = case['desc']
    for i in range(len(desc['stages']) - 1, 0, -1):
        c = hist.clone(case)
        del c['desc']['stages'][i]
        a = pargen.abs_eval(c['desc'])
        if a is not None and a.sized and a.findexable and (a.items or not c['items']):
            yield c
    if desc['source']['n'] > 1:
        c = hist.clone(case)
        c['desc']['source']['n'] -= 1
        for st in c['desc']['stages']:
            if st['op'] == 'zip':
                st['n'] = c['desc']['source']['n']
        a = pargen.abs_eval(c['desc'])
        if a is not None and a.sized and a.findexable:
            c['faults'] = [f for f in c['faults']
                           if f['pos'] < c['desc']['source']['n'] or f['pos'] >= 100]
            yield c
    for k in ('items', 'down'):
        if case[k]:
            c = hist.clone(case)
            c[k] = False
            yield c
    if case['stop_k'] is not None:
        c = hist.clone(case)
        c['stop_k'] = None
        yield c
