"""C04 - prefetch and parallel map are transparent: same examples, same order."""
from .. import pargen, parrun, parprops
from ..parprops import COMPONENTS, ASSUMPTIONS  # noqa

PROP = 'C04'
LEVEL = 'exploration'
RULE = ('family = one generated pipeline (source, 0-3 upstream stages, one prefetch '
        'or parallel-map stage with workers 1-3, buffer workers..workers+3, backend '
        't / False / stub pools, 0-2 downstream stages), iterated to exhaustion for '
        '1-2 epochs under 3 sampled schedules (policies: random, sticky, PCT, '
        'starve-consumer, starve-worker), by value and by key; oracle = the same '
        'description built sequentially. Non-trivial = at least one real context '
        'switch; distinct = distinct (pipeline, schedule signature). Every 60th family '
        'is systematic: a tiny workload under the non-preemptive baseline schedule and '
        'ALL schedules with exactly one forced context switch.')
PROBES = ['all_single_preemption_schedules_of_a_tiny_workload', 'items_refused',
          'later_task_finished_first']
BUDGET = {
    'quick': {'families': 6000, 'wall_cap': 420, 'shrink_s': 15},
    'thorough': {'families': 60000, 'wall_cap': 5400, 'shrink_s': 40},
}


def gen_systematic(rng):
    desc = parprops.tiny_desc(rng)
    base = {'desc': desc, 'epochs': 1, 'items': False, 'cost_seed': None, 'think_seed': 0,
            'think_max': 0, 'trace': ['parallel_utils'], 'systematic': 1}
    return parprops.one_preemption_cases(base, parrun.run_par_case)


def gen(rng, tier, index):
    if index % 60 == 59:
        return gen_systematic(rng)
    backends = ('t',) if rng.random() < 0.5 else \
        tuple(pargen.BACKENDS_POOL) + ('False',)
    big = rng.random() < 0.1
    desc, a = pargen.gen_desc(
        rng, max_n=24 if big else 8, falsy_p=0.12,
        par_kw=dict(backends=backends, max_extra_b=3))
    st = parprops.par_stage(desc)
    if st.get('backend') is False and st['op'] == 'prefetch':
        # backend=False evaluates in the consumer thread; still a valid config
        pass
    items = a.items is not False and rng.random() < 0.25 or \
        (desc['source']['kind'] == 'dict' and rng.random() < 0.15)
    cases = []
    for j in range(3):
        cases.append({
            'desc': desc, 'sched': pargen.gen_sched(rng),
            'epochs': rng.choice([1, 2]), 'items': bool(items),
            'cost_seed': rng.randrange(1000), 'think_seed': rng.randrange(1000),
            'think_max': rng.choice([0, 0, 3]),
            'trace': ['parallel_utils', 'core'] if rng.random() < 0.3
            else ['parallel_utils']})
    return cases


def _out_of_order_probe(res, out):
    """Did some later computation finish before an earlier one?"""
    rets = [e[4] for e in res['log'] if e[2] == 'ret' and e[1] != 0]
    firsts = [r[0] for r in rets if r]
    if any(a > b for a, b in zip(firsts, firsts[1:])):
        out['probes']['later_task_finished_first'] = 1


def run(case):
    res = parrun.run_par_case(case)
    out = parprops.base_outcome(case, res)
    if case.get('systematic'):
        out['fired']['systematic_one_preemption'] = 1
        out['probes']['all_single_preemption_schedules_of_a_tiny_workload'] = 1
    if not parprops.check_failure(case, res, out):
        parprops.check_transparent(case, res, out)
        if not out['violations'] and not case.get('items'):
            parprops.check_call_counts(case, res, res['ref_log'], out)
        _out_of_order_probe(res, out)
    return out


shrink = parprops.shrink_par
