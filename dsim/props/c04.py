"""C04 - prefetch and parallel map are transparent: same examples, same order."""
from .. import pargen, parrun, parprops
from .. import workload as W
from ..parprops import COMPONENTS, ASSUMPTIONS  # noqa

PROP = 'C04'
LEVEL = 'exploration'
RULE = ('family = one generated pipeline (source, 0-3 upstream stages, one prefetch '
        'or parallel-map stage with workers 1-3, buffer workers..workers+3, backend '
        't / False / stub pools, 0-2 downstream stages), iterated to exhaustion for '
        '1-2 epochs under 3 sampled schedules (policies: random, sticky, PCT, '
        'starve-consumer, starve-worker), by value and by key; oracle = the same '
        'description built sequentially. Non-trivial = at least one real context '
        'switch; distinct = distinct (pipeline, schedule signature). 12% of the pipelines '
        'turn some examples into falsy values (None, 0, empty containers) before the '
        'parallel stage, 8% feed an endless cycled input (first k examples compared), 25% '
        'first iterate a different pipeline with the same parallel configuration in the '
        'same run. Every 60th family '
        'is systematic: a tiny workload under the non-preemptive baseline schedule and '
        'ALL schedules with exactly one forced context switch; in the thorough tier '
        'every 3000th family enumerates all schedules with at most TWO forced switches '
        'of a n=2 workload.')
PROBES = ['another_pipeline_used_first_in_the_same_run', 'endless_input_first_k_compared',
          'all_single_preemption_schedules_of_a_tiny_workload', 'items_refused',
          'later_task_finished_first', 'several_hundred_examples_behind_a_pool',
          'delivered_stream_equals_the_abstract_model']
BUDGET = {
    'quick': {'families': 6000, 'wall_cap': 420, 'shrink_s': 15},
    'thorough': {'families': 60000, 'wall_cap': 5400, 'shrink_s': 40},
}


# tiny pipelines whose workers share lazily filled state of the stages below the
# prefetch (key tables): every one-preemption schedule at line granularity of core.py
TINY_CORE = [
    (3, [{'op': 'slice', 'sl': [2, 0, 1]}, {'op': 'items'},
         {'op': 'prefetch', 'w': 2, 'b': 2, 'backend': 't'}]),
    (3, [{'op': 'reshuffle', 'seed': 5}, {'op': 'items'},
         {'op': 'prefetch', 'w': 2, 'b': 2, 'backend': 't'}]),
    (2, [{'op': 'concat', 'n': 1, 'kind': 'dict', 'offset': 100, 'map': None}, {'op': 'items'},
         {'op': 'prefetch', 'w': 2, 'b': 2, 'backend': 't'}]),
    (3, [{'op': 'slice', 'sl': [1, 2]}, {'op': 'cache'},
         {'op': 'prefetch', 'w': 2, 'b': 2, 'backend': 't'}]),
]


TWO_DESCS = [
    [{'op': 'prefetch', 'w': 1, 'b': 1, 'backend': 't'}],
    [{'op': 'prefetch', 'w': 2, 'b': 2, 'backend': 't'}],
    [{'op': 'parmap', 'id': 'p', 'w': 1, 'b': 1, 'backend': 't'}],
    [{'op': 'parmap', 'id': 'p', 'w': 2, 'b': 2, 'backend': 't'}],
    [{'op': 'prefetch', 'w': 1, 'b': 1, 'backend': 't', 'catch': True}],
]


def gen_systematic_two(rng):
    """thorough tier: ALL schedules with at most two forced switches of a n=2 workload"""
    import json as _json
    desc = {'source': {'kind': rng.choice(['list', 'dict']), 'n': 2},
            'stages': [{'op': 'map', 'id': 'u0'}] +
            _json.loads(_json.dumps(rng.choice(TWO_DESCS)))}
    base = {'desc': desc, 'epochs': 1, 'items': False, 'cost_seed': None, 'think_seed': 0,
            'think_max': 0, 'trace': ['parallel_utils'], 'systematic': 2}
    return parprops.two_preemption_cases(base, parrun.run_par_case)


def gen_systematic(rng):
    if rng.random() < 0.3:
        import json as _json
        n, st = TINY_CORE[rng.randrange(len(TINY_CORE))]
        desc = {'source': {'kind': 'dict', 'n': n},
                'stages': [{'op': 'map', 'id': 'u0'}] + _json.loads(_json.dumps(st))}
        base = {'desc': desc, 'epochs': 1, 'items': False, 'cost_seed': None, 'think_seed': 0,
                'think_max': 0, 'trace': ['parallel_utils', 'core'], 'systematic': 1}
        return parprops.one_preemption_cases(base, parrun.run_par_case, max_cases=2400)
    desc = parprops.tiny_desc(rng)
    base = {'desc': desc, 'epochs': 1, 'items': False, 'cost_seed': None, 'think_seed': 0,
            'think_max': 0, 'trace': ['parallel_utils'], 'systematic': 1}
    return parprops.one_preemption_cases(base, parrun.run_par_case)


def gen_large(rng):
    """A few hundred examples (index arithmetic beyond one byte, many jobs per
    worker) behind a process-pool prefetch or parallel map; calm schedules."""
    for _ in range(50):
        n = rng.randrange(260, 420)
        stages = [{'op': 'map', 'id': 'u0'}]
        if rng.random() < 0.6:
            stages.append({'op': 'batch', 'bs': rng.randrange(2, 4), 'drop_last': False})
        r = rng.random()
        if r < 0.4:
            stages.append({'op': 'shuffle', 'seed': rng.randrange(1000)})
        elif r < 0.6:
            stages.append({'op': 'reshuffle', 'seed': rng.randrange(1000)})
        elif r < 0.8:
            stages.append({'op': 'slice', 'sl': {'start': None, 'stop': None, 'step': -1}})
        par = pargen.gen_par_stage(rng, kinds=('prefetch', 'prefetch', 'parmap'),
                                   backends=tuple(pargen.BACKENDS_POOL) + ('t',),
                                   max_w=3, max_extra_b=2, single_p=0.0)
        stages.append(par)
        desc = {'source': {'kind': rng.choice(['list', 'dict']), 'n': n}, 'stages': stages}
        if pargen.abs_eval(desc) is not None:
            break
    return [{'desc': desc, 'sched': {'policy': 'sticky', 'params': {'p': 0.95},
                                     'seed': rng.randrange(1 << 30)},
             'epochs': 1, 'items': False, 'cost_seed': rng.randrange(1000),
             'think_seed': rng.randrange(1000), 'think_max': 0, 'trace': ['parallel_utils'],
             'large': 1} for _j in range(2)]


def copyable(desc):
    """may the consumer iterate a copy() instead?  Not with a user-written source /
    stage (no copy()), and not with a tiling above a per-epoch reshuffle (recorded
    finding of C13: the copy of such a pipeline iterates in another order)"""
    ops = [s['op'] for s in desc['stages']]
    return desc['source'].get('kind') != 'user' and 'user' not in ops \
        and 'userstage' not in ops and 'tile' not in ops and 'cycle' not in ops


def gen(rng, tier, index):
    if tier == 'thorough' and index % 3000 == 2999:
        return gen_systematic_two(rng)
    if index % 100 == 99:
        return gen_large(rng)
    if index % 60 == 59:
        return gen_systematic(rng)
    backends = ('t',) if rng.random() < 0.5 else \
        tuple(pargen.BACKENDS_POOL) + ('False',)
    big = rng.random() < 0.1
    desc, a = pargen.gen_desc(
        rng, max_n=24 if big else 8, falsy_p=0.12, batched_p=0.6, tile_p=0.1,
        par_kw=dict(backends=backends, max_extra_b=3))
    st = parprops.par_stage(desc)
    if st.get('backend') is False and st['op'] == 'prefetch':
        # backend=False evaluates in the consumer thread; still a valid config
        pass
    take = None
    pi = pargen.par_index(desc)
    if rng.random() < 0.08 and desc['source']['n'] > 0 and pi == len(desc['stages']) - 1 \
            and (st['op'] == 'parmap' or not pargen.is_pool(st)) and not st.get('catch'):
        # an endless (cycled) input: the first k examples must agree
        cyc = {'source': desc['source'],
               'stages': desc['stages'][:pi] + [{'op': 'cycle'}, desc['stages'][pi]]}
        a2 = pargen.abs_eval(cyc)
        if a2 is not None:
            desc, a = cyc, a2
            take = rng.randrange(1, 3 * desc['source']['n'] + 3)
    items = a.items is not False and rng.random() < 0.25 or \
        (desc['source']['kind'] == 'dict' and rng.random() < 0.15)
    prelude = None
    if rng.random() < 0.25 and take is None:
        # a different pipeline with the same parallel stage configuration is
        # iterated first in the same run
        for _ in range(20):
            pd, pa = pargen.gen_desc(rng, max_n=6, min_n=1, max_up=2, max_down=0,
                                     par_kw=dict(backends=(st.get('backend', 't')
                                                           if st.get('backend', 't') is not False
                                                           else 'False',), max_extra_b=2))
            pst = parprops.par_stage(pd)
            if pst['op'] == st['op'] and pargen.is_pool(pst) == pargen.is_pool(st):
                prelude = pd
                break
    via_copy = copyable(desc) and rng.random() < 0.12
    cases = []
    for j in range(3):
        cases.append({
            **({'via_copy': True} if via_copy else {}),
            'desc': desc, 'sched': pargen.gen_sched(rng),
            'epochs': rng.choice([1, 2]), 'items': bool(items),
            'cost_seed': rng.randrange(1000), 'think_seed': rng.randrange(1000),
            'think_max': rng.choice([0, 0, 3]),
            'trace': ['parallel_utils', 'core'] if rng.random() < 0.3
            else ['parallel_utils']})
        if take is not None:
            cases[-1]['take'] = take
            cases[-1]['epochs'] = 1
        if prelude is not None:
            cases[-1]['prelude'] = prelude
    return cases


def _out_of_order_probe(res, out):
    """Did some later computation finish before an earlier one?"""
    rets = [e[4] for e in res['log'] if e[2] == 'ret' and e[1] != 0]
    firsts = [r[0] for r in rets if r]
    if any(a > b for a, b in zip(firsts, firsts[1:])):
        out['probes']['later_task_finished_first'] = 1


def _check_against_model(case, res, out):
    """Independent of the sequential reference (which is built from the same
    stage classes): where the abstract interpreter predicts the provenance of
    every delivered element, an iteration that ran to its end must deliver
    exactly those elements in that order."""
    if out['violations'] or case.get('take') is not None:
        return
    a = pargen.abs_eval(case['desc'])
    if a is None or a.elems is None:
        return
    want = [tuple(sorted(e)) for e in a.elems]
    pn = parprops.path_name(case['desc'])
    for ep, p in enumerate(res['epochs']):
        if p['end'] != 'exhausted':
            continue
        got = [tuple(sorted(W.src_ids(x))) for x in p['out']]
        if got != want:
            n_ = min(len(got), len(want))
            i = next((j for j in range(n_) if got[j] != want[j]), n_)
            out['violations'].append(parprops.viol(
                'output_differs_from_model', 'output_differs_from_model:%s' % pn,
                'epoch %d: delivered %d elements, the pipeline description yields %d; first '
                'difference at %d: source examples %s vs %s (the sequential build agrees with '
                'the delivered stream: a stage common to both is off)'
                % (ep, len(got), len(want), i, got[i] if i < len(got) else '<end>',
                   want[i] if i < len(want) else '<end>')))
            return
    out['probes']['delivered_stream_equals_the_abstract_model'] = 1


def run(case):
    res = parrun.run_par_case(case)
    out = parprops.base_outcome(case, res)
    if case.get('large'):
        out['probes']['several_hundred_examples_behind_a_pool'] = 1
    if case.get('systematic') == 2:
        out['fired']['systematic_two_preemptions'] = 1
    if case.get('systematic'):
        out['fired']['systematic_one_preemption'] = 1
        out['probes']['all_single_preemption_schedules_of_a_tiny_workload'] = 1
    if not parprops.check_failure(case, res, out):
        parprops.check_transparent(case, res, out)
        _check_against_model(case, res, out)
        if case.get('take') is not None:
            out['probes']['endless_input_first_k_compared'] = 1
        if case.get('prelude'):
            out['probes']['another_pipeline_used_first_in_the_same_run'] = 1
        if not out['violations'] and not case.get('items') and case.get('take') is None:
            parprops.check_call_counts(case, res, res['ref_log'], out)
        _out_of_order_probe(res, out)
    return out


shrink = parprops.shrink_par
