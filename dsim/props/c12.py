"""C12 - every shuffle is a permutation, for every iterator in flight."""
import itertools
import collections

import numpy as np

import lazy_dataset
from .. import hist
from ..workload import src_ids, norm as W_norm, close_iter as _close_iter

PROP = 'C12'
LEVEL = 'exploration'
RULE = ('family = one shuffled dataset object (one-time shuffle, per-epoch reshuffle, '
        'buffer-local shuffle with buffer 1..n+1, shuffled tiling, sampling without '
        'replacement; explicit or global generator; list or dict source with items(); '
        'optionally wrapped in self-zip / self-intersperse) of length 0..7 and the '
        'interleavings of the next() calls of 1-3 iterators over it: ALL interleavings '
        'when there are at most 60, otherwise 16 sampled ones; an adversary step may '
        'reseed / advance the global numpy state between any two calls. Oracle: each '
        'exhausted iterator yields the input multiset (sampling: a duplicate-free '
        'sub-multiset of the requested size), each unfinished one a duplicate-free '
        'part of it; local shuffle never emits an example more than buffer_size-1 '
        'positions early. Non-trivial = at least two iterators overlapped or an '
        'adversary step fired; distinct = distinct (dataset, op list).')
PROBES = ['oversized_sample_without_replacement_refused', 'dataset_derived_while_iterator_in_flight', 'iterators_over_freezing_consumer',
          'second_iterator_started_while_first_in_flight', 'three_iterators_in_flight',
          'adversary_reseeded_global_state', 'displacement_bound_reached',
          'rounds_of_an_endless_repetition', 'none_example_shuffled',
          'each_repetition_of_a_shuffled_tiling_checked']
BUDGET = {
    'quick': {'families': 20000, 'wall_cap': 420, 'shrink_s': 10},
    'thorough': {'families': 200000, 'wall_cap': 5400, 'shrink_s': 30},
}
COMPONENTS = {
    'real': ['lazy_dataset.core: Dataset.shuffle / tile / random_choice, ReShuffleDataset, '
             'LocalShuffleDataset, SliceDataset, ZipDataset, IntersperseDataset, ItemsDataset',
             'numpy.random (RandomState and the global state)'],
    'replaced_by_simulator': ['the order of next() calls of the iterators in flight and the '
                              'instants at which the global numpy state is perturbed (explicit '
                              'seeded operation list)'],
    'stub': [],
}
ASSUMPTIONS = ['single thread: the only interleaving is the order of next() calls; '
               'input examples are pairwise distinct so duplicates are attributable']

KNOWN_SIG = 'ReShuffleDataset:iterator_started_while_another_in_flight'


def build(spec):
    from .. import sim as S_
    with S_.building():
        return _build(spec)


def _build(spec):
    n = spec['n']
    ids = list(range(n))
    if spec.get('sub'):
        # the shuffled dataset is a selection out of a larger one
        ids = [1000] + ids + [1001]
    if spec['source'] == 'dict':
        src = lazy_dataset.new({'k%d' % i: {'src': i} for i in ids})
    else:
        src = lazy_dataset.new([{'src': i} for i in ids])
    if spec.get('sub'):
        src = src[1:-1] if spec['seed'] % 2 else src[list(range(1, n + 1))]
    rng = np.random.RandomState(spec['seed']) if spec['rng'] == 'explicit' else None
    kind = spec['kind']
    if kind == 'once':
        ds = src.shuffle(False, rng=rng)
    elif kind == 'reshuffle':
        ds = src.shuffle(True, rng=rng)
    elif kind == 'local':
        ds = src.shuffle(True, rng=rng, buffer_size=spec['b'])
    elif kind == 'tile':
        ds = src.tile(spec['reps'], shuffle=True)
    elif kind == 'choice':
        ds = src.random_choice(spec['size'], replace=False,
                               **({'rng_state': rng} if rng is not None else {}))
    else:
        raise ValueError(kind)
    if spec.get('items'):
        ds = ds.items()
    wrap = spec.get('wrap')
    if wrap == 'zip_self':
        ds = ds.zip(ds)
    elif wrap == 'intersperse_self':
        ds = ds.intersperse(ds)
    elif wrap == 'prefetch_pool':
        ds = ds.prefetch(2, 2)
    elif wrap == 'prefetch_single':
        # the single-thread fallback (iterates its input in a worker thread)
        ds = ds.prefetch(1, 1 + spec['seed'] % 3)
    elif wrap == 'prefetch_alias1':
        # one worker of the thread pool (the documented alias spelling selects
        # the pool path, which freezes the reshuffle per iteration)
        ds = ds.prefetch(1, 1 + spec['seed'] % 2, backend='thread')
    elif wrap == 'catch':
        ds = ds.catch()
    elif wrap == 'copy_only':
        # every iterator runs over a copy of the dataset (once or twice removed)
        ds = ds.copy()
        if spec['seed'] % 3 == 0:
            ds = ds.copy()
    return ds


def expected_counter(spec):
    n = spec['n']
    if spec['kind'] == 'tile':
        return collections.Counter({i: spec['reps'] for i in range(n)}), n * spec['reps']
    if spec['kind'] == 'choice':
        return collections.Counter({i: 1 for i in range(n)}), spec['size']
    return collections.Counter({i: 1 for i in range(n)}), n


def gen_spec(rng):
    kind = rng.choice(['once', 'reshuffle', 'reshuffle', 'local', 'local', 'tile', 'choice'])
    n = rng.randrange(0, 8)
    spec = {'kind': kind, 'n': n, 'source': rng.choice(['list', 'dict']),
            'rng': rng.choice(['explicit', 'global']), 'seed': rng.randrange(1 << 16),
            'gseed': rng.randrange(1 << 16)}
    if kind == 'local':
        spec['b'] = rng.randrange(1, n + 2)
    if kind == 'tile':
        spec['reps'] = rng.randrange(1, 4)
        spec['rng'] = 'global'
    if kind == 'choice':
        if rng.random() < 0.5:
            # sampling few out of many (other code paths for sparse samples)
            n = spec['n'] = rng.randrange(20, 121)
            spec['size'] = rng.randrange(2, max(3, n // 8))
        elif n == 0:
            spec['kind'] = 'once'
        elif rng.random() < 0.15:
            # more than there is: without replacement that can only be refused
            spec['size'] = n + rng.randrange(1, 4)
            spec['oversize'] = True
        else:
            spec['size'] = rng.randrange(1, n + 1)
    if spec['source'] == 'dict' and spec['kind'] != 'tile' and rng.random() < 0.4:
        spec['items'] = True
    if n > 0 and kind != 'choice' and rng.random() < 0.2:
        spec['sub'] = True
    if n > 0 and rng.random() < 0.2:
        spec['wrap'] = rng.choice(['zip_self', 'intersperse_self'])
    elif kind == 'reshuffle' and not spec.get('items') and rng.random() < 0.5:
        # consumers that freeze the reshuffle once per iteration: several
        # iterators in flight are independent of each other there; and a copy()
        # of the dataset iterated next to the original
        spec['wrap'] = rng.choice(['prefetch_pool', 'prefetch_alias1', 'catch', 'copy_pair'])
    elif n > 0 and kind in ('local', 'once', 'tile', 'reshuffle') and rng.random() < 0.12:
        spec['wrap'] = 'copy_only'
    elif n > 0 and n <= 12 and not spec.get('items') and rng.random() < 0.08:
        # any shuffle behind the single-thread prefetch (timed waits of the
        # hand-over queue may fire at any moment under the scheduler)
        spec['wrap'] = 'prefetch_single'
    return spec


def out_len(spec):
    _, m = expected_counter(spec)
    if spec.get('wrap') == 'intersperse_self':
        return 2 * m
    return m


def interleavings(lens, limit):
    """All orders of next() calls (sequences over iterator indices) if there
    are at most `limit`, else None."""
    total = 1
    rem = sum(lens)
    for l in lens:
        total *= _binom(rem, l)
        rem -= l
        if total > limit:
            return None
    items = []
    for i, l in enumerate(lens):
        items += [i] * l
    return sorted(set(itertools.permutations(items)))


def _binom(n, k):
    r = 1
    for i in range(k):
        r = r * (n - i) // (i + 1)
    return r


def gen(rng, tier, index):
    if index % 12 == 11:
        n = rng.randrange(1, 7)
        kind = rng.choice(['once', 'reshuffle', 'reshuffle', 'local', 'tile'])
        cases = []
        for j in range(4):
            spec = {'kind': kind, 'n': n, 'source': rng.choice(['list', 'dict']),
                    'rng': rng.choice(['explicit', 'global']) if kind != 'tile' else 'global',
                    'seed': rng.randrange(1 << 16), 'gseed': rng.randrange(1 << 16),
                    'none_at': rng.randrange(n) if rng.random() < 0.6 else None}
            if kind == 'local':
                spec['b'] = rng.randrange(1, n + 2)
            if kind == 'tile':
                spec['reps'] = rng.randrange(1, 4)
            cases.append({'mode': 'rounds', 'spec': spec, 'rounds': rng.randrange(2, 6), 'ops': []})
        return cases
    spec = gen_spec(rng)
    nit = rng.choice([1, 2, 2, 2, 3])
    if spec['n'] > 12:
        nit = 1
    m = out_len(spec) + 1          # +1: the call that raises StopIteration
    lens = [m] * nit
    allil = interleavings(lens, 60) if nit > 1 else [tuple([0] * m)]
    if allil is None:
        allil = []
        for _ in range(16):
            seq = []
            for i in range(nit):
                seq += [i] * m
            rng.shuffle(seq)
            # sometimes stop early so that unfinished iterators are checked
            if rng.random() < 0.3:
                seq = seq[:rng.randrange(1, len(seq) + 1)]
            allil.append(tuple(seq))
    cases = []
    for il in allil:
        ops = [['next', i] for i in il]
        nadv = rng.choice([0, 0, 1, 2])
        for _ in range(nadv):
            pos = rng.randrange(0, len(ops) + 1)
            ops.insert(pos, rng.choice([['reseed', rng.randrange(1 << 16)],
                                        ['advance', rng.randrange(1, 5)]]))
        if spec['kind'] in ('once', 'tile', 'choice') and rng.random() < 0.4 and ops:
            # new datasets are derived from the object while iterators are in flight
            for _ in range(rng.randrange(1, 3)):
                ops.insert(rng.randrange(0, len(ops) + 1),
                           ['derive', rng.choice(['shuffle', 'tile', 'slice', 'copy'])])
        cases.append({'spec': spec, 'iters': nit, 'ops': ops})
    return cases


def _ids_of(x, spec):
    return src_ids(x)


def run_rounds(case):
    """One iterator over `<shuffle>.cycle()`: every round of the endless stream is
    a permutation of the input, for as many rounds as the consumer takes; one
    of the input examples may be None (a legal example)."""
    import warnings
    import lazy_dataset
    spec = case['spec']
    n, none_at, rounds = spec['n'], spec.get('none_at'), case['rounds']
    st = np.random.get_state()
    np.random.seed(spec['gseed'])
    violations = []
    try:
        with warnings.catch_warnings(record=True):
            warnings.simplefilter('always')
            exs = [None if i == none_at else {'src': i} for i in range(n)]
            src = lazy_dataset.new({'k%d' % i: e for i, e in enumerate(exs)}
                                   if spec['source'] == 'dict' else exs)
            rng = np.random.RandomState(spec['seed']) if spec['rng'] == 'explicit' else None
            kind = spec['kind']
            if kind == 'once':
                ds = src.shuffle(False, rng=rng)
            elif kind == 'reshuffle':
                ds = src.shuffle(True, rng=rng)
            elif kind == 'local':
                ds = src.shuffle(True, rng=rng, buffer_size=spec['b'])
            else:
                ds = src.tile(spec['reps'], shuffle=True)
            m = n * (spec['reps'] if kind == 'tile' else 1)
            want = collections.Counter({i: (spec['reps'] if kind == 'tile' else 1) for i in range(n)})
            got = []
            it = iter(ds.cycle())
            err = None
            try:
                for _ in range(rounds * m):
                    got.append(next(it))
            except StopIteration:
                err = 'the endless stream ended after %d of %d examples' % (len(got), rounds * m)
            except Exception as e:
                err = 'raised %s: %s' % (type(e).__name__, str(e)[:100])
            _close_iter(it)
            ids = [none_at if x is None else (x['src'] if isinstance(x, dict) and 'src' in x else -1)
                   for x in got]
            if err:
                violations.append(hist.viol('endless_stream_ended', 'endless_stream_ended:%s' % kind,
                                            '%s.cycle(): %s (ids so far %s)' % (kind, err, ids)))
            else:
                for r in range(rounds):
                    block = ids[r * m:(r + 1) * m]
                    if collections.Counter(block) != want:
                        violations.append(hist.viol(
                            'not_a_permutation', 'not_a_permutation:%s:cycle' % kind,
                            'round %d of %s.cycle() yielded %s, not a permutation of the %d inputs'
                            % (r, kind, block, n)))
                        break
    finally:
        np.random.set_state(st)
    return hist.outcome(case, nontrivial=True, key=hist.hkey(case), violations=violations,
                        fired={'mode_rounds': 1, 'kind_' + spec['kind']: 1},
                        probes={'rounds_of_an_endless_repetition': 1,
                                **({'none_example_shuffled': 1} if none_at is not None else {})},
                        stats={'rounds': rounds}, sample={'case': case}, digest_extra=None)


def run(case):
    if case.get('mode') == 'rounds':
        return run_rounds(case)
    if case['spec'].get('wrap') in ('prefetch_pool', 'prefetch_alias1', 'prefetch_single'):
        from .. import sim as S
        from lazy_dataset import parallel_utils as ldp
        from lazy_dataset import core as ldc_
        sim = S.Sim({'policy': 'random', 'seed': case['spec']['seed']},
                    trace_files=[ldp.__file__, ldc_.__file__])
        out = None
        with S.simulation(sim):
            try:
                out = _run(case, lambda: sim.drain())
            except S.SimAbort:
                pass
        if out is None or sim.failure:
            return hist.outcome(case, nontrivial=True, key=hist.hkey(case), violations=[
                hist.viol('hang', 'hang:prefetch_pool', 'iterators over a pool prefetch: %s'
                          % sim.failure)], fired={}, probes={}, stats={}, sample={'case': case})
        return out
    return _run(case, None)


def _run(case, finish):
    spec = case['spec']
    st = np.random.get_state()
    np.random.seed(spec['gseed'])
    violations = []
    probes = {}
    fired = {}
    try:
        if spec.get('oversize'):
            try:
                ds = build(spec)
            except Exception:
                np.random.set_state(st)
                return hist.outcome(case, nontrivial=True, key=hist.hkey(case), violations=[],
                                    fired={'oversized_sample_requested': 1},
                                    probes={'oversized_sample_without_replacement_refused': 1},
                                    stats={}, sample={'case': case}, digest_extra=None)
        else:
            ds = build(spec)
        nit = case['iters']
        its = [None] * nit
        copies = {}
        outs = [[] for _ in range(nit)]
        done = [False] * nit
        started_at = [None] * nit
        finished_at = [None] * nit
        error = None
        for step, (op, arg) in enumerate(case['ops']):
            if op == 'reseed':
                np.random.seed(arg)
                fired['global_reseed'] = fired.get('global_reseed', 0) + 1
                probes['adversary_reseeded_global_state'] = 1
            elif op == 'advance':
                np.random.rand(arg)
                fired['global_advance'] = fired.get('global_advance', 0) + 1
            elif op == 'derive':
                try:
                    if arg == 'shuffle':
                        d_ = ds.shuffle(False, rng=np.random.RandomState(step))
                    elif arg == 'tile':
                        d_ = ds.tile(2, shuffle=True)
                    elif arg == 'slice':
                        d_ = ds[::-1].shuffle(False)
                    else:
                        d_ = ds.copy()
                    list(d_)
                    d_ = None
                except Exception as e:      # derived datasets are not judged here
                    pass
                fired['derived_while_iterating'] = fired.get('derived_while_iterating', 0) + 1
                probes['dataset_derived_while_iterator_in_flight'] = 1
            elif op == 'next':
                i = arg
                if done[i]:
                    continue
                if its[i] is None:
                    if spec.get('wrap') == 'copy_pair' and i % 2 == 1:
                        if copies.get(i) is None:
                            copies[i] = ds.copy()
                        its[i] = iter(copies[i])
                    else:
                        its[i] = iter(ds)
                    started_at[i] = step
                try:
                    outs[i].append(next(its[i]))
                except StopIteration:
                    done[i] = True
                    finished_at[i] = step
                except Exception as e:
                    error = (i, type(e).__name__, str(e)[:200])
                    break
        if finish is not None:
            for i_ in range(nit):
                if its[i_] is not None and not done[i_]:
                    _close_iter(its[i_])
            its = [x if d_ else x for x, d_ in zip(its, done)]
            finish()
        overlap = False
        live = 0
        for i in range(nit):
            if started_at[i] is None:
                continue
            for j in range(nit):
                if j == i or started_at[j] is None:
                    continue
                end_i = finished_at[i] if finished_at[i] is not None else len(case['ops'])
                if started_at[i] < started_at[j] < end_i:
                    overlap = True
        if overlap and spec.get('wrap') in ('prefetch_pool', 'prefetch_alias1', 'catch', 'copy_pair'):
            probes['iterators_over_freezing_consumer'] = 1
        if overlap:
            probes['second_iterator_started_while_first_in_flight'] = 1
            fired['iterator_overlap'] = 1
        if nit >= 3 and all(s is not None for s in started_at) and \
                max(started_at) < min(f if f is not None else len(case['ops'])
                                      for f in finished_at):
            probes['three_iterators_in_flight'] = 1
        wrap = spec.get('wrap')
        internal_overlap = wrap in ('zip_self', 'intersperse_self') and spec['n'] > 0
        # copy_pair with two iterators: the two run over different objects
        freezing = wrap in ('prefetch_pool', 'prefetch_alias1', 'catch') or (wrap == 'copy_pair' and nit == 2)
        exp, m = expected_counter(spec)
        kind = spec['kind']

        def sig(cls):
            if cls == 'not_a_permutation' and kind == 'reshuffle' and \
                    (overlap or internal_overlap) and not freezing:
                return KNOWN_SIG
            return '%s:%s%s' % (cls, kind, (':' + wrap) if wrap else '')

        if error is not None:
            violations.append(hist.viol(
                'iteration_raised', sig('iteration_raised') + ':' + error[1],
                'iterator %d raised %s: %s' % (error[0], error[1], error[2])))
        # the emitted elements must BE the input examples (type and content),
        # not merely carry their ids
        def expected_element(i_):
            ex = {'src': i_}
            return ('k%d' % i_, ex) if spec.get('items') else ex

        for i in range(nit):
            if its[i] is None or violations:
                continue
            flat = []
            for x in outs[i]:
                if wrap == 'zip_self':
                    flat += [x[0], x[1]]
                else:
                    flat.append(x)
            for x in flat:
                sid = src_ids(x)
                if len(sid) != 1 or W_norm(x) != W_norm(expected_element(sid[0])):
                    violations.append(hist.viol(
                        'element_altered', sig('element_altered'),
                        'iterator %d emitted %r, which is not the input example %r'
                        % (i, x, expected_element(sid[0]) if sid else None)))
                    break
            if violations:
                continue
            streams = _streams(outs[i], wrap, spec)
            for sname, ids in streams:
                c = collections.Counter(ids)
                if done[i]:
                    ok = (sum(c.values()) == m and all(c[k] <= exp[k] for k in c)
                          and (kind == 'choice' or c == exp))
                else:
                    ok = all(c[k] <= exp[k] for k in c)
                if not ok:
                    dup = sorted(k for k in c if c[k] > exp[k])
                    missing = sorted(k for k in exp if c[k] < exp[k]) if done[i] else []
                    violations.append(hist.viol(
                        'not_a_permutation', sig('not_a_permutation'),
                        'iterator %d%s (%s) yielded %s; repeated %s, missing %s; '
                        'overlapping iterators: %s'
                        % (i, sname, 'exhausted' if done[i] else 'in flight', ids,
                           dup, missing, overlap or internal_overlap)))
                    break
                if kind == 'tile' and wrap in (None, 'copy_only') and spec['n'] > 0:
                    # every repetition is shuffled on its own: each complete block of
                    # n consecutive examples is a permutation of the input
                    n_ = spec['n']
                    for r_ in range(len(ids) // n_):
                        blk = ids[r_ * n_:(r_ + 1) * n_]
                        if sorted(blk) != list(range(n_)):
                            violations.append(hist.viol(
                                'not_a_permutation', 'not_a_permutation:tile:repetition',
                                'iterator %d: repetition %d of the shuffled tiling is %s, not a '
                                'permutation of the %d inputs' % (i, r_, blk, n_)))
                            break
                    if violations:
                        break
                    probes['each_repetition_of_a_shuffled_tiling_checked'] = 1
                if kind == 'local' and wrap in (None, 'copy_only'):
                    b = spec['b']
                    for j, p in enumerate(ids):
                        if j < p - (b - 1):
                            violations.append(hist.viol(
                                'emitted_too_early', sig('emitted_too_early'),
                                'example %d emitted at position %d, more than '
                                'buffer_size-1=%d positions early' % (p, j, b - 1)))
                            break
                        if j == p - (b - 1) and b > 1:
                            probes['displacement_bound_reached'] = 1
    finally:
        np.random.set_state(st)
    fired['kind_' + spec['kind']] = 1
    nontrivial = bool(probes.get('second_iterator_started_while_first_in_flight')
                      or fired.get('global_reseed') or fired.get('global_advance')
                      or spec.get('wrap'))
    return hist.outcome(
        case, nontrivial=nontrivial, key=hist.hkey(case), violations=violations,
        fired=fired, probes=probes, stats={'ops': len(case['ops'])},
        sample={'case': case, 'outputs': [[list(src_ids(x)) for x in o] for o in outs]},
        digest_extra=[[list(src_ids(x)) for x in o] for o in outs])


def _streams(out, wrap, spec):
    """Split one driver output into the streams of the internal iterators."""
    if wrap == 'zip_self':
        return [('/zip[0]', [src_ids(x[0])[0] for x in out]),
                ('/zip[1]', [src_ids(x[1])[0] for x in out])]
    if wrap == 'intersperse_self':
        return [('/intersperse[0]', [src_ids(x)[0] for x in out[0::2]]),
                ('/intersperse[1]', [src_ids(x)[0] for x in out[1::2]])]
    return [('', [src_ids(x)[0] for x in out])]


def shrink(case):
    if case.get('mode') == 'rounds':
        if case['rounds'] > 1:
            c = hist.clone(case)
            c['rounds'] -= 1
            yield c
        return
    yield from hist.shrink_ops(case, 'ops')
    spec = case['spec']
    if spec['n'] > 1:
        c = hist.clone(case)
        c['spec']['n'] -= 1
        if c['spec'].get('size', 0) > c['spec']['n']:
            c['spec']['size'] = c['spec']['n']
        yield c
    for k in ('items', 'wrap'):
        if spec.get(k):
            c = hist.clone(case)
            c['spec'].pop(k)
            yield c
