"""C08 - evaluation is demand-driven: nothing runs early, nothing runs twice."""
import warnings

from .. import hist, pargen, parrun, parprops
from .. import workload as W

PROP = 'C08'
LEVEL = 'exploration'
RULE = ('family = one generated pipeline of lazy combinators (map, lazy filter, slice, '
        'concatenate, zip, batch, fragment+unbatch, items, buffer-local shuffle, '
        'optionally a single-thread / pool prefetch or a parallel map run under the '
        'thread simulator) with an instrumented function at every stage and a source '
        'longer than the total look-ahead the stages are allowed; cases: construction; '
        'iteration stopped after k results for sampled k and full iteration, two epochs; '
        'ds[i] for EVERY index and ds[key] for every key of indexable pipelines. Oracle '
        '(provenance, no reference interpreter), an invariant over the whole event log: '
        'at every event the source examples evaluated but not yet accounted for by a '
        'delivered result or a logged filter verdict stay within the stated look-ahead; '
        'no (stage, example) is evaluated twice per iteration; a streaming first stage '
        'sees source order; ds[i] evaluates exactly the provenance of its result. '
        'Non-trivial = the pipeline has at least two stages and the stop point is inside '
        'the stream or an index is accessed; distinct = distinct (pipeline, mode, k/i, '
        'schedule signature).')
PROBES = ['stopped_inside_stream', 'look_ahead_fully_used', 'behind_thread_prefetch',
          'index_access_into_batch', 'key_access', 'prefix_of_an_endless_repetition',
          'interspersed_inputs', 'strict_demand_checked_at_every_result']
BUDGET = {
    'quick': {'families': 7000, 'wall_cap': 420, 'shrink_s': 12},
    'thorough': {'families': 70000, 'wall_cap': 5400, 'shrink_s': 30},
}
COMPONENTS = dict(parprops.COMPONENTS)
ASSUMPTIONS = ['reading a source example is observed through the instrumented first map stage',
               'look-ahead allowances are summed conservatively in source examples '
               '(elements ahead x examples per element)',
               'schedules of the prefetch variants are sampled']


def allowance(desc):
    """(total look-ahead in source examples, examples per output element)."""
    width = 1
    wmax = 1
    total = 0
    for st in desc['stages']:
        op = st['op']
        if op == 'zip':
            width += 1
        elif op == 'batch':
            width *= st['bs']
        elif op == 'local_shuffle':
            total += (st['bs'] - 1) * width
        elif op == 'prefetch':
            total += (st['b'] + 2) * width
        elif op == 'parmap':
            total += (st['b'] + 2) * width
        wmax = max(wmax, width)
    return total + width + wmax, width


def gen_desc(rng, with_par):
    for _ in range(200):
        kind = rng.choice(['list', 'dict'])
        desc = {'source': {'kind': kind, 'n': 6},
                'stages': [{'op': 'map', 'id': 'u0'}]}
        a = pargen.abs_eval(desc)
        offset = 100
        for j in range(rng.randrange(1, 4)):
            for _try in range(6):
                op = rng.choice(['map', 'map', 'slice', 'batch', 'items', 'concat',
                                 'zip', 'filter', 'local_shuffle', 'fragment_unbatch',
                                 'intersperse'])
                sid = 'u%d' % (j + 1)
                if op == 'map':
                    sts = [{'op': 'map', 'id': sid}]
                elif op == 'slice':
                    step = rng.choice([1, 2, -1, 3])
                    sts = [{'op': 'slice', 'sl': {'start': rng.choice([None, 1, 2]),
                                                  'stop': None, 'step': step}}]
                elif op == 'batch':
                    sts = [{'op': 'batch', 'bs': rng.randrange(1, 4),
                            'drop_last': rng.random() < 0.4}]
                elif op == 'items':
                    sts = [{'op': 'items'}]
                elif op == 'concat':
                    sts = [{'op': 'concat', 'n': rng.randrange(1, 4), 'offset': offset,
                            'kind': 'dict' if a.keys else 'list', 'map': sid}]
                    offset += 100
                elif op == 'intersperse':
                    # an equally long partner (resized with the source) or a short one
                    sts = [{'op': 'intersperse', 'n': rng.choice([0, 0, 2, 3]), 'offset': offset,
                            'same_len': None, 'kind': 'dict' if a.keys else 'list', 'map': sid}]
                    sts[0]['same_len'] = sts[0]['n'] == 0
                    sts[0]['n'] = sts[0]['n'] or (a.n or 1)
                    offset += 100
                elif op == 'zip':
                    sts = [{'op': 'zip', 'n': a.n if a.n is not None else 0,
                            'offset': offset + 50, 'map': sid}]
                    offset += 100
                elif op == 'filter':
                    sts = [{'op': 'filter', 'id': sid, 'lazy': True,
                            'mod': rng.randrange(2, 4), 'rem': rng.randrange(0, 2)}]
                elif op == 'local_shuffle':
                    sts = [{'op': 'local_shuffle', 'seed': rng.randrange(1000),
                            'bs': rng.randrange(1, 4)}]
                else:
                    sts = [{'op': 'fragment', 'id': sid, 'parts': 2},
                           {'op': 'unbatch', 'parts': 2}]
                    if rng.random() < 0.5 and not with_par:
                        # the batches are generators: parts computed on demand
                        sts[0]['lazy'] = True
                        sts[0]['parts'] = sts[1]['parts'] = rng.randrange(2, 4)
                b = a
                for st in sts:
                    b = pargen.abs_apply(b, st) if b is not None else None
                if b is not None:
                    desc['stages'] += sts
                    a = b
                    break
        if not with_par and a.sized and a.findexable and rng.random() < 0.2:
            # an index-driven consumer at the end (no failures are injected here)
            st = {'op': 'catch', 'exc': 'filter'}
            b = pargen.abs_apply(a, st)
            if b is not None:
                desc['stages'].append(st)
                a = b
        cyc = not with_par and rng.random() < 0.1
        if with_par:
            par = pargen.gen_par_stage(
                rng, backends=('t',) if rng.random() < 0.75 else tuple(pargen.BACKENDS_POOL),
                max_extra_b=1, catch_p=0.25)
            b = pargen.abs_apply(a, par)
            if b is None:
                continue
            desc['stages'].append(par)
            a = b
            if rng.random() < 0.4:
                desc['stages'].append({'op': 'map', 'id': 'd0'})
        for j_, s_ in enumerate(desc['stages']):
            # on-demand fragments are judged part by part: only as the last stages
            if s_['op'] == 'fragment' and s_.get('lazy') and j_ != len(desc['stages']) - 2:
                s_['lazy'] = False
                s_['parts'] = desc['stages'][j_ + 1]['parts'] = 2
        # source longer than the allowed look-ahead (zip partner follows)
        L, width = allowance(desc)
        n = L + rng.randrange(3, 9)
        desc['source']['n'] = n
        ok = _resize(desc)
        if ok is not None and cyc:
            # an endless repetition at the end: only prefixes of the first pass
            # are consumed
            if not ok.elems:
                continue
            desc['stages'].append({'op': 'cycle'})
            ok2 = pargen.abs_apply(ok, desc['stages'][-1])
            if ok2 is None:
                desc['stages'].pop()
            else:
                ok2.first_pass = len(ok.elems)
                ok = ok2
        if ok is not None:
            return desc, ok
    raise RuntimeError('no pipeline')


def _resize(desc):
    """zip partners must have the length of their input: recompute."""
    a = pargen.abs_source(desc['source'])
    for st in desc['stages']:
        if st['op'] == 'zip':
            if not a.sized:
                return None
            st['n'] = a.n
        if st['op'] == 'intersperse' and st.get('same_len'):
            if not a.sized or not a.n:
                return None
            st['n'] = a.n
        a = pargen.abs_apply(a, st)
        if a is None:
            return None
    return a


def gen(rng, tier, index):
    with_par = rng.random() < 0.35
    desc, a = gen_desc(rng, with_par)
    cases = [{'mode': 'construct', 'desc': desc}]
    nout = len(a.elems) if a.elems is not None else desc['source']['n']
    endless = desc['stages'][-1]['op'] == 'cycle'
    if endless:
        nout = a.first_pass
    ks = sorted({0, 1, nout, rng.randrange(0, nout + 1), rng.randrange(0, nout + 1)})
    for k in ks + ([] if endless else [None]):
        c = {'mode': 'iter', 'desc': desc, 'k': k, 'epochs': 2 if k is None else 1}
        if with_par:
            c['sched'] = pargen.gen_sched(rng)
            c['cost_seed'] = rng.randrange(1000)
            c['think_seed'] = rng.randrange(1000)
            c['think_max'] = rng.choice([0, 3, 10])
        cases.append(c)
    if a.indexable and a.elems is not None and not with_par:
        for i in range(len(a.elems)):
            cases.append({'mode': 'index', 'desc': desc, 'i': i})
            if a.keys and rng.random() < 0.5:
                cases.append({'mode': 'key', 'desc': desc, 'i': i})
    return cases


def _iter_sequential(desc, k, epochs):
    ctx = W.set_ctx(W.Ctx())
    ds = W.build(desc)
    ctx.event('built')
    for ep in range(epochs):
        ctx.event('epoch', ep)
        it = iter(ds)
        j = 0
        while True:
            if k is not None and j == k:
                W.close_iter(it)
                break
            try:
                x = next(it)
            except StopIteration:
                break
            ctx.event('deliver', j, W.src_ids(x), W.part_path(x))
            j += 1
        it = None
        ctx.event('returned')
    W.set_ctx(None)
    return ctx.log


def tail_allowed(desc):
    """batch(drop_last=True) traversed by iteration legitimately evaluates the
    examples of the incomplete last batch; an index-driven consumer further down
    (slice, catch, pool prefetch) never touches them"""
    st = desc['stages']
    for j, s_ in enumerate(st):
        if s_['op'] == 'batch' and s_.get('drop_last'):
            later = st[j + 1:]
            index_driven = any(
                x['op'] in ('slice', 'catch', 'cache') or
                (x['op'] == 'prefetch' and (pargen.is_pool(x) or x.get('catch')))
                for x in later)
            if not index_driven:
                return True
    return False


def analyse(desc, log, delivered_ids=None, exhausted=None):
    """Invariants over one recorded history.  delivered_ids: per epoch list of
    provenance tuples, used when 'deliver' events do not carry them."""
    L, width = allowance(desc)
    out = []
    # a pool prefetch evaluates indices concurrently: no source order there
    streaming = not any(st['op'] in ('slice', 'sort', 'shuffle', 'reshuffle', 'intersperse') or
                        (st['op'] == 'prefetch' and pargen.is_pool(st))
                        for st in desc['stages'])
    built = next((i for i, e in enumerate(log) if e[2] == 'built'), None)
    early = [e for e in log[:built] if e[2] in ('call', 'verdict')] if built is not None else []
    if early:
        out.append(('ran_at_construction', 'ran_at_construction:%s' % early[0][3],
                    'user function %s ran while the pipeline was being constructed: %s'
                    % (early[0][3], list(early[0]))))
    peak = 0
    # no stage that the property allows to run ahead (batch, shuffle buffer,
    # prefetch buffer; fragments are delivered in parts): then, whenever the
    # consumer holds a result, nothing beyond the delivered results has run
    strict = not any(st['op'] in ('batch', 'local_shuffle', 'prefetch', 'parmap', 'fragment',
                                  'unbatch') for st in desc['stages'])
    for ep, ev in enumerate(parrun.split_epochs(log)):
        evaluated, accounted = set(), set()
        parts_made = {}
        seen = {}
        last_u0 = -1
        k = 0
        for e in ev:
            kind = e[2]
            if kind == 'call':
                ids = e[4]
                key = (e[3], ids, e[5] if len(e) > 5 else ())
                seen[key] = seen.get(key, 0) + 1
                if seen[key] == 2:
                    out.append(('evaluated_twice', 'evaluated_twice:%s' % _stage_op(desc, e[3]),
                                'epoch %d: stage %s applied twice to %s in one iteration'
                                % (ep, e[3], list(ids))))
                evaluated.update(ids)
                if e[3] == 'u0' and streaming and ids:
                    if ids[0] < last_u0:
                        out.append(('source_order_violated', 'source_order_violated',
                                    'epoch %d: first stage saw example %d after %d'
                                    % (ep, ids[0], last_u0)))
                    last_u0 = max(last_u0, ids[0])
            elif kind == 'part':
                # key: source ids + the part path of the fragmented element
                pk = (tuple(e[4]), tuple(e[5][1:]))
                parts_made[pk] = parts_made.get(pk, 0) + 1
            elif kind == 'verdict' and not e[5]:
                accounted.update(e[4])
            elif kind == 'deliver':
                pk = (tuple(e[4]), tuple(e[5][1:])) if len(e) > 5 and e[5] else None
                if pk is not None and parts_made.get(pk, 0) > e[5][0] + 1:
                    out.append(('evaluated_beyond_request', 'evaluated_beyond_request:unbatch',
                                'epoch %d: part %d of the fragments of %s was handed over when %d '
                                'parts had already been computed (the batches are generators)'
                                % (ep, e[5][0], list(e[4]), parts_made[pk])))
                    break
                if len(e) > 4:
                    accounted.update(e[4])
                elif delivered_ids is not None:
                    accounted.update(delivered_ids[ep][k])
                k += 1
            ahead = len(evaluated - accounted)
            peak = max(peak, ahead)
            if strict and ahead and kind == 'deliver':
                out.append(('evaluated_beyond_request', 'evaluated_beyond_request:%s' % _strict_tag(desc),
                            'epoch %d: when result %d was handed over, source examples %s had been '
                            'evaluated although they are part of no result delivered so far (no '
                            'batch, shuffle buffer or prefetch stage in this pipeline)'
                            % (ep, k - 1, sorted(evaluated - accounted)[:6])))
                break
            if ahead > L:
                out.append(('evaluated_too_early', 'evaluated_too_early:%s' % _stage_op(desc, e[3] if kind == 'call' else None),
                            'epoch %d, event %d: %d source examples evaluated beyond those '
                            'delivered or filtered; the stages present allow %d (first '
                            'unaccounted: %s)' % (ep, e[0], ahead, L,
                                                  sorted(evaluated - accounted)[:6])))
                break
        else:
            left = evaluated - accounted
            if strict and left and not (exhausted is not None and ep < len(exhausted) and exhausted[ep]):
                out.append(('evaluated_beyond_request', 'evaluated_beyond_request:%s' % _strict_tag(desc),
                            'epoch %d: the consumer stopped after %d results, yet source examples %s '
                            'were evaluated (no batch, shuffle buffer or prefetch stage in this '
                            'pipeline)' % (ep, k, sorted(left)[:6])))
            if exhausted is not None and ep < len(exhausted) and exhausted[ep] and left \
                    and not tail_allowed(desc):
                out.append(('evaluated_unneeded', 'evaluated_unneeded:%s' % (
                    'catch' if any(s_['op'] == 'catch' for s_ in desc['stages']) else 'other'),
                    'epoch %d ran to exhaustion, yet source examples %s were evaluated although '
                    'they are part of no delivered result and were not filtered'
                    % (ep, sorted(left)[:8])))
    return out, peak, L


def _strict_tag(desc):
    ops = {st['op'] for st in desc['stages']}
    for o in ('intersperse', 'zip', 'concat', 'filter', 'catch', 'slice', 'items'):
        if o in ops:
            return o
    return 'map'


def _stage_op(desc, sid):
    for st in desc['stages']:
        if st.get('id') == sid or st.get('map') == sid:
            return st['op']
    return 'any'


def run(case):
    desc = case['desc']
    mode = case['mode']
    violations, probes, fired = [], {}, {}
    stats = {}
    sig = ''
    choices = None
    with warnings.catch_warnings(record=True):
        warnings.simplefilter('always')    # recorded, not printed; never 'ignore': dependencies inspect warnings
        if mode == 'construct':
            ctx = W.set_ctx(W.Ctx())
            ds = W.build(desc)
            try:
                len(ds)
            except TypeError:
                pass
            ctx.event('built')
            W.set_ctx(None)
            found, peak, L = analyse(desc, ctx.log)
            log = ctx.log
        elif mode == 'iter' and 'sched' in case:
            pc = {'desc': desc, 'sched': case['sched'], 'epochs': case['epochs'],
                  'stop': {'kind': 'exhaust'} if case['k'] is None else
                  {'kind': 'close', 'k': case['k']},
                  'cost_seed': case.get('cost_seed'), 'think_seed': case.get('think_seed', 0),
                  'think_max': case.get('think_max', 0)}
            res = parrun.run_par_case(pc)
            tmp = parprops.base_outcome(pc, res)
            choices = res['choices']
            if parprops.check_failure(pc, res, tmp):
                violations += tmp['violations']
                found, peak, L = [], 0, 0
            else:
                ids = [[W.src_ids(x) for x in ep['out']] for ep in res['epochs']]
                found, peak, L = analyse(desc, res['log'], ids,
                                         [ep['end'] == 'exhausted' for ep in res['epochs']])
            stats = tmp['stats']
            sig = res['stats']['sig']
            log = res['log']
            probes['behind_thread_prefetch'] = 1
            fired['thread_prefetch'] = 1
        elif mode == 'iter':
            log = _iter_sequential(desc, case['k'], case['epochs'])
            found, peak, L = analyse(desc, log, None,
                                     [case['k'] is None] * case['epochs'])
        else:
            ctx = W.set_ctx(W.Ctx())
            ds = W.build(desc)
            ctx.event('built')
            i = case['i']
            if mode == 'key':
                key = list(ds.keys())[i]
                x = ds[key]
                probes['key_access'] = 1
            else:
                x = ds[i]
            W.set_ctx(None)
            log = ctx.log
            prov = set(W.src_ids(x))
            found = []
            seen = {}
            for e in log:
                if e[2] == 'call':
                    key = (e[3], e[4], e[5] if len(e) > 5 else ())
                    seen[key] = seen.get(key, 0) + 1
                    extra = set(e[4]) - prov
                    if extra:
                        found.append(('index_touched_neighbours',
                                      'index_touched_neighbours:%s' % _stage_op(desc, e[3]),
                                      'ds[%s] = provenance %s but stage %s was applied to %s'
                                      % (i, sorted(prov), e[3], list(e[4]))))
                        break
                    if seen[key] == 2:
                        found.append(('evaluated_twice', 'evaluated_twice:index:%s' % _stage_op(desc, e[3]),
                                      'ds[%s]: stage %s applied twice to %s' % (i, e[3], list(e[4]))))
                        break
            peak, L = 0, 0
            if any(st['op'] == 'batch' for st in desc['stages']):
                probes['index_access_into_batch'] = 1
    for cls, s, msg in found[:1]:
        violations.append(hist.viol(cls, s, msg))
    if mode == 'iter':
        if case['k'] not in (None, 0):
            probes['stopped_inside_stream'] = 1
        _, width = allowance(desc)
        if L and peak >= L - 2 * width and L > 2 * width + 1:
            probes['look_ahead_fully_used'] = 1
        stats['peak_ahead'] = peak
        ops_ = {st['op'] for st in desc['stages']}
        if 'cycle' in ops_:
            probes['prefix_of_an_endless_repetition'] = 1
        if 'intersperse' in ops_:
            probes['interspersed_inputs'] = 1
        if not ops_ & {'batch', 'local_shuffle', 'prefetch', 'parmap', 'fragment', 'unbatch'} \
                and case['k'] not in (None, 0):
            probes['strict_demand_checked_at_every_result'] = 1
    fired['mode_' + mode] = 1
    nontrivial = mode in ('index', 'key') or \
        (mode == 'iter' and len(desc['stages']) >= 2)
    out = hist.outcome(
        case, nontrivial=nontrivial,
        key=hist.hkey([case, sig]), violations=violations, fired=fired, probes=probes,
        stats=stats,
        sample={'case': case, 'first_events': [list(e) for e in log[:30]]},
        digest_extra=[repr(log)])
    out['choices'] = choices
    return out


def shrink(case):
    desc = case['desc']
    for i in range(len(desc['stages']) - 1, 0, -1):
        c = hist.clone(case)
        st = c['desc']['stages'][i]
        if st['op'] == 'fragment':
            continue
        if st['op'] == 'unbatch':
            del c['desc']['stages'][i - 1:i + 1]
        else:
            del c['desc']['stages'][i]
            if st['op'] in ('prefetch', 'parmap') and not any(
                    s['op'] in ('prefetch', 'parmap') for s in c['desc']['stages']):
                for k in ('sched', 'cost_seed', 'think_seed', 'think_max'):
                    c.pop(k, None)
        a = _resize(c['desc'])
        if a is None:
            continue
        if case['mode'] in ('index', 'key'):
            if not a.indexable or a.elems is None or case['i'] >= len(a.elems):
                continue
            if case['mode'] == 'key' and not a.keys:
                continue
        yield c
    n = desc['source']['n']
    for m in (n // 2, n - 1):
        if 1 <= m < n:
            c = hist.clone(case)
            c['desc']['source']['n'] = m
            a = _resize(c['desc'])
            if a is None:
                continue
            if case['mode'] in ('index', 'key') and (a.elems is None or case['i'] >= len(a.elems)):
                continue
            yield c
    if case['mode'] == 'iter' and case.get('k'):
        c = hist.clone(case)
        c['k'] -= 1
        yield c
    if case.get('epochs', 1) > 1:
        c = hist.clone(case)
        c['epochs'] = 1
        yield c
    if case.get('think_max'):
        c = hist.clone(case)
        c['think_max'] = 0
        yield c
    if case.get('sched') and case['sched'].get('policy') != 'random' and \
            case['sched'].get('choices') is None:
        c = hist.clone(case)
        c['sched'] = {'policy': 'random', 'seed': 1}
        yield c
