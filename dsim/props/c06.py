"""C06 - errors in background work surface at the right position."""
from .. import pargen, parrun, parprops
from .. import workload as W
from ..parprops import COMPONENTS, ASSUMPTIONS  # noqa

PROP = 'C06'
LEVEL = 'fault_enumeration'
RULE = ('family = one generated pipeline with a prefetch / parallel-map stage and a '
        'failing site (a stage upstream of the parallel stage = the source, or the '
        'parallel-mapped function itself) and exception kind (FilterException, a '
        'subclass of it, two unrelated Exception types, a BaseException subclass); '
        'EVERY single failing position 0..n-1 is enumerated, plus pairs and random '
        'subsets, with catch_filter_exception off / True / a type / a tuple, each '
        'under a sampled schedule. Oracle: delivered prefix, omitted positions and '
        'terminal exception equal the sequential reference (independent per-position '
        'catch); thread backends must deliver the very exception object. '
        'Non-trivial = a fault fired or a real context switch happened; distinct = '
        'distinct (pipeline, fault plan, schedule signature). Every 50th family is '
        'systematic: a tiny workload with one failing position under the non-preemptive '
        'baseline schedule and ALL schedules with exactly one forced context switch; in the '
        'thorough tier every 3000th family enumerates all schedules with at most TWO '
        'forced switches of a n=2 thread-backend workload.')
PROBES = ['all_single_preemption_schedules_of_a_tiny_workload', 'error_after_deliveries', 'error_at_first_position', 'error_at_last_position',
          'caught_and_omitted', 'foreign_exception_with_catch_enabled']
BUDGET = {
    'quick': {'families': 4800, 'wall_cap': 420, 'shrink_s': 15},
    'thorough': {'families': 40000, 'wall_cap': 5400, 'shrink_s': 40},
}

KINDS = ['value', 'filter', 'filter_sub', 'filter_bare', 'key', 'index', 'timeout', 'notimpl', 'stopiter', 'base']


def gen_systematic(rng, two=False):
    """tiny workload, one failing position, ALL one-preemption schedules
    (two=True, thorough tier: at most two forced switches, n=2)"""
    desc = parprops.tiny_desc(rng)
    if two:
        while desc['source']['n'] != 2 or parprops.par_stage(desc).get('backend') != 't':
            desc = parprops.tiny_desc(rng)
    n = desc['source']['n']
    pi = pargen.par_index(desc)
    sites = [s['id'] for s in desc['stages'][:pi + 1] if 'id' in s]
    base = {'desc': desc, 'epochs': 1, 'cost_seed': None, 'think_seed': 0, 'think_max': 0,
            'trace': ['parallel_utils'], 'systematic': 1,
            'faults': [{'stage': rng.choice(sites), 'pos': rng.randrange(n),
                        'exc': rng.choice(KINDS)}]}
    if two:
        base['systematic'] = 2
        return parprops.two_preemption_cases(base, parrun.run_par_case)
    return parprops.one_preemption_cases(base, parrun.run_par_case)


def copyable(desc):
    """may the consumer iterate a copy() instead?  Not with a user-written source /
    stage (no copy()), and not with a tiling above a per-epoch reshuffle (recorded
    finding of C13: the copy of such a pipeline iterates in another order)"""
    ops = [s['op'] for s in desc['stages']]
    return desc['source'].get('kind') != 'user' and 'user' not in ops \
        and 'userstage' not in ops and 'tile' not in ops and 'cycle' not in ops


def gen(rng, tier, index):
    if tier == 'thorough' and index % 3000 == 2999:
        return gen_systematic(rng, two=True)
    if index % 50 == 49:
        return gen_systematic(rng)
    # backend=False (undocumented serial debugging mode) has no background
    # work and is exercised by C04 only.
    backends = ('t',) if rng.random() < 0.6 else tuple(pargen.BACKENDS_POOL)
    user_src = rng.random() < 0.08
    while True:
        desc, a = pargen.gen_desc(
            rng, max_n=7, min_n=1, max_up=2, max_down=1, falsy_p=0.12, batched_p=0.5,
            source_kind='user' if (user_src and rng.random() < 0.3) else None,
            user_stage_p=1.0 if user_src else 0.0,
            par_kw=dict(backends=backends, max_extra_b=2, catch_p=0.45))
        pi = pargen.par_index(desc)
        # batch(drop_last=True) makes sequential *iteration* evaluate tail
        # examples that index-based evaluation never touches: an error there is
        # not an error of background work, so such programs are not generated.
        if not any(s['op'] == 'batch' and s.get('drop_last')
                   for s in desc['stages'][:pi]):
            break
    n = desc['source']['n']
    sites = [s['id'] for s in desc['stages'][:pi + 1] if 'id' in s and
             s['op'] in ('map', 'parmap', 'fragment')]
    site = rng.choice(sites)
    kind = rng.choice(KINDS)
    trace = ['parallel_utils', 'core'] if rng.random() < 0.25 else ['parallel_utils']
    plans = [[{'stage': site, 'pos': p, 'exc': kind}] for p in range(n)]
    for _ in range(3):
        k = rng.randrange(2, 4)
        plans.append([{'stage': rng.choice(sites), 'pos': rng.randrange(n),
                       'exc': rng.choice(KINDS)} for _ in range(k)])
    pst_ = desc['stages'][pi]
    if user_src and (pst_['op'] == 'parmap' or not pargen.is_pool(pst_)):
        # setting up the iteration over the user's dataset fails: iter() itself raises
        # (a multi-worker prefetch evaluates by index and never iterates its input)
        # (not StopIteration: raised by a plain iter() call it arrives as itself,
        # raised inside the library's generators as RuntimeError - PEP 479)
        plans = [[{'stage': 'src_iter', 'pos': 0, 'exc': k_}] for k_ in
                 rng.sample([k for k in KINDS if k != 'stopiter'], 3)] + plans[:4]
    # key iteration (pairs travel through the worker / the catching stage)
    pre_ = pargen.abs_eval({'source': desc['source'], 'stages': desc['stages'][:pi]})
    items = bool(pre_ is not None and pre_.items and pi == len(desc['stages']) - 1
                 and (pst_['op'] == 'parmap' or not pargen.is_pool(pst_))
                 and rng.random() < 0.4)
    via_copy = copyable(desc) and rng.random() < 0.15
    cases = []
    for plan in plans:
        cases.append({
            **({'via_copy': True} if via_copy else {}),
            'desc': desc, 'sched': pargen.gen_sched(rng), 'epochs': rng.choice([1, 1, 2]),
            **({'items': True} if items else {}),
            'faults': plan, 'cost_seed': rng.randrange(1000),
            'think_seed': rng.randrange(1000), 'think_max': rng.choice([0, 0, 3]),
            'trace': trace})
    return cases


def _check_nothing_swallowed(case, res, out):
    """Independent of the sequential reference (which would share a defect of
    the stages themselves): an epoch in which an injected exception outside the
    selected set was raised must not end as if the input were exhausted."""
    if out['violations']:
        return
    st = parprops.par_stage(case['desc'])
    caught = W.catch_spec_types(st.get('catch')) if st.get('catch') else ()
    pn = parprops.path_name(case['desc'])
    for which, log, epochs in (('', res['log'], res['epochs']),
                               (':sequential', res['ref_log'], res['ref']['epochs'])):
        for ep, ev in enumerate(parrun.split_epochs(log)):
            if ep >= len(epochs) or epochs[ep]['end'] != 'exhausted':
                continue
            for e in ev:
                if e[2] == 'raise' and not (caught and issubclass(W.EXC_KINDS[e[5]], caught)):
                    out['violations'].append(parprops.viol(
                        'error_swallowed', 'error_swallowed:%s:%s%s' % (pn, e[5], which),
                        'epoch %d: stage %s raised %s for %s, yet the %s ended as if the input '
                        'were exhausted after %d examples'
                        % (ep, e[3], W.EXC_KINDS[e[5]].__name__, list(e[4]),
                           'sequential pipeline' if which else 'stream', len(epochs[ep]['out']))))
                    return


def run(case):
    res = parrun.run_par_case(case)
    out = parprops.base_outcome(case, res)
    if case.get('systematic') == 2:
        out['fired']['systematic_two_preemptions'] = 1
    if case.get('systematic'):
        out['fired']['systematic_one_preemption'] = 1
        out['probes']['all_single_preemption_schedules_of_a_tiny_workload'] = 1
    if not parprops.check_failure(case, res, out):
        parprops.check_transparent(case, res, out, identity=True)
        _check_nothing_swallowed(case, res, out)
        parprops.check_clean_stop(case, res, out)
        n = case['desc']['source']['n']
        for p, r in zip(res['epochs'], res['ref']['epochs']):
            if r['end'] == 'error':
                if r['out']:
                    out['probes']['error_after_deliveries'] = 1
                pos = r['exc'][1][2] if len(r['exc'][1]) > 2 else None
                if pos == 0:
                    out['probes']['error_at_first_position'] = 1
                if pos == n - 1:
                    out['probes']['error_at_last_position'] = 1
                if parprops.par_stage(case['desc']).get('catch'):
                    out['probes']['foreign_exception_with_catch_enabled'] = 1
            if parprops.par_stage(case['desc']).get('catch') and res['fired'] \
                    and r['end'] == 'exhausted':
                out['probes']['caught_and_omitted'] = 1
    return out


shrink = parprops.shrink_par
