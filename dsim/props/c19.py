"""C19 - the database layer builds correct, isolated datasets from its source."""
import gc
import os
import copy
import json
import pickle
import shutil
import tempfile
import warnings

from lazy_dataset import database as ldb

from .. import hist
from .. import workload as W

PROP = 'C19'
LEVEL = 'exploration'
RULE = ('family = one database description (1-3 merged parts, 0-3 datasets of 0-3 '
        'examples, 0-2 aliases - possibly only in a later part -, extra top-level keys of '
        'scalar / list / dict type in the first part; with probability 0.2 an invalid one: '
        'duplicate dataset or alias name across parts, overlapping example ids inside an '
        'alias, between any two parts and in all four dataset / alias combinations), a '
        'second database object with the same names but other contents in 40% of the '
        'histories, Dict- and Json-backed (files on a per-run temp dir), and 3 request '
        'histories of 4-14 operations: get_dataset(name | alias | list), repeat, hold / '
        'drop the result, gc.collect(), mutate a returned example, pickle round trip of a '
        'JsonDatabase, rewrite / remove a JSON file after load or after pickling. Oracle: '
        'reference dict model for contents and order; source dicts deep-equal to their '
        'snapshot after every operation; a repeated request is the held object while it '
        'is alive; invalid descriptions are rejected. Non-trivial = a lifetime / file / '
        'mutation event happened between two requests; distinct = distinct (description, '
        'history).')
PROBES = ['rejection_repeated_on_retry', 'duplicate_between_two_later_parts', 'two_database_objects_with_common_names', 'alias_only_in_later_part', 'extra_top_level_scalar_with_merge',
          'request_after_gc_rebuilt', 'identity_while_held', 'file_removed_after_load',
          'unpickled_database_answered', 'invalid_description_rejected',
          'files_rewritten_between_two_database_objects',
          'constructor_given_a_list_or_tuple_of_parts', 'two_client_threads',
          'callers_list_extended_after_construction', 'list_request_with_a_repeated_name']
BUDGET = {
    'quick': {'families': 10000, 'wall_cap': 420, 'shrink_s': 10},
    'thorough': {'families': 100000, 'wall_cap': 5400, 'shrink_s': 30},
}
COMPONENTS = {
    'real': ['lazy_dataset.database: Database.get_examples / _get_dataset / DictDatabase / '
             'JsonDatabase.data / __reduce__ / _merge_database_dicts', 'lazy_dataset.core.from_dict, '
             'ConcatenateDataset', 'weakref.WeakValueDictionary, pickle, json on real files'],
    'replaced_by_simulator': ['instants of reference release, cyclic GC and file rewrite / removal '
                              '(seeded op list)'],
    'stub': [],
}
ASSUMPTIONS = ['single task, no schedule: the events are lifetime and file events',
               'adding an empty "alias" section to a source dictionary is not a change of the stored '
               'datasets, examples or aliases (Database.alias uses setdefault)']


def gen_db(rng):
    nparts = rng.choice([1, 1, 2, 2, 3])
    parts = []
    ds_names = []
    counter = [0]
    used_ids = []
    for p in range(nparts):
        datasets = {}
        for _ in range(rng.randrange(0 if p else 1, 3)):
            if len(ds_names) >= 4:
                break
            name = 'd%d' % len(ds_names)
            ds_names.append(name)
            exs = {}
            for _e in range(rng.randrange(0, 4)):
                if used_ids and rng.random() < 0.08:
                    eid = rng.choice(used_ids)          # overlap across datasets
                    if eid in exs:
                        continue
                else:
                    eid = 'e%d' % counter[0]
                    counter[0] += 1
                used_ids.append(eid)
                exs[eid] = {'v': counter[0], 'nested': {'l': [counter[0]]}}
                if rng.random() < 0.06:
                    # a description dumped from another database: the examples
                    # still carry the fields get_dataset() adds (stale values)
                    exs[eid]['dataset'] = 'stale_name'
                    if rng.random() < 0.5:
                        exs[eid]['example_id'] = 'stale_id'
            datasets[name] = exs
        parts.append({'datasets': datasets})
    # aliases (may live in any part, also only in a later one)
    nalias = rng.choice([0, 1, 1, 2])
    for a in range(nalias):
        if not ds_names:
            break
        members = rng.sample(ds_names, rng.randrange(1, min(3, len(ds_names)) + 1))
        if rng.random() < 0.12:
            # an alias that lists one member twice overlaps itself on every id
            members.insert(rng.randrange(len(members) + 1), rng.choice(members))
        p = rng.randrange(nparts)
        parts[p].setdefault('alias', {})['a%d' % a] = members
    if rng.random() < 0.4:
        parts[0][rng.choice(['meta', 'version'])] = rng.choice(
            ['v1', 3, {'x': 1}, [1, 2], None])
    invalid = None
    if nparts > 1 and rng.random() < 0.25:
        # a name defined in ANY earlier part (also a non-first one) is defined
        # again - as dataset or as alias - in a later part
        kind = rng.choice(['dup_dataset', 'dup_alias', 'alias_vs_dataset', 'dataset_vs_alias'])
        i = rng.randrange(0, nparts - 1)
        j = rng.randrange(i + 1, nparts)
        ds_i = list(parts[i]['datasets'])
        al_i = list(parts[i].get('alias', {}))
        some_ds = ds_names[:1]
        if kind == 'dup_dataset' and ds_i:
            parts[j]['datasets'][rng.choice(ds_i)] = {'ex_dup': {'v': -1}}
            invalid = kind
        elif kind == 'dup_alias' and al_i:
            parts[j].setdefault('alias', {})[rng.choice(al_i)] = list(some_ds)
            invalid = kind
        elif kind == 'alias_vs_dataset' and ds_i:
            parts[j].setdefault('alias', {})[rng.choice(ds_i)] = list(some_ds)
            invalid = kind
        elif kind == 'dataset_vs_alias' and al_i:
            parts[j]['datasets'][rng.choice(al_i)] = {'ex_dup2': {'v': -2}}
            invalid = kind
        if invalid:
            invalid = '%s:part%d_vs_part%d' % (invalid, i, j)
    return parts, invalid


def gen(rng, tier, index):
    parts, invalid = gen_db(rng)
    backend = rng.choice(['dict', 'dict', 'json'])
    if backend == 'json':
        # JSON object keys are strings and None/list/dict survive: fine
        pass
    names = sorted({n for p in parts for n in p['datasets']})
    aliases = sorted({n for p in parts for n in p.get('alias', {})})
    if invalid is None and names and rng.random() < 0.08:
        # two client threads under the thread scheduler
        cases = []
        pool_ = names + aliases
        for j in range(3):
            plans = [[rng.choice(pool_[:2] if rng.random() < 0.7 else pool_)
                      for _ in range(rng.randrange(2, 5))] for _t in range(2)]
            cases.append({'mode': 'concurrent', 'parts': parts, 'plans': plans, 'backend': 'dict',
                          'ops': [], 'invalid': None,
                          'sched': {'policy': rng.choice(['random', 'sticky']), 'params': {'p': 0.5},
                                    'seed': rng.randrange(1 << 30)}})
        return cases
    cases = []
    for j in range(3):
        ops = []
        for _ in range(rng.randrange(4, 15)):
            r = rng.random()
            if r < 0.5 and (names or aliases):
                pool = names + aliases
                if rng.random() < 0.2 and names:
                    req = rng.sample(names, rng.randrange(1, len(names) + 1))
                    if rng.random() < 0.3:
                        # the same name more than once (adjacent or not): the
                        # concatenation repeats its examples
                        req.insert(rng.randrange(0, len(req) + 1), rng.choice(req))
                else:
                    req = rng.choice(pool)
                # hold? / which database object (a second one with the same
                # names but different contents exists in 40% of the histories)
                ops.append(['get', req, rng.random() < 0.6, rng.randrange(2)])
            elif r < 0.62:
                ops.append(['drop', rng.randrange(0, 4)])
            elif r < 0.72:
                ops.append(['gc'])
            elif r < 0.84:
                ops.append(['mutate', rng.randrange(0, 4), rng.randrange(0, 3)])
            elif backend == 'json' and r < 0.92:
                ops.append(['pickle'])
            elif backend == 'json':
                ops.append(['file', rng.choice(['remove', 'rewrite']), rng.randrange(len(parts))])
            else:
                ops.append(['gc'])
        cases.append({'parts': parts, 'invalid': invalid, 'backend': backend, 'ops': ops,
                      'two_dbs': rng.random() < 0.4, 'spelling': rng.randrange(0, 12),
                      'reused_path': backend == 'json' and rng.random() < 0.3})
    return cases


def model_expected(parts, req):
    """-> ('ok', [(key, example)...]) | ('error', reason)"""
    datasets = {}
    alias = {}
    for p in parts:
        datasets.update(p['datasets'])
        alias.update(p.get('alias', {}))
    if isinstance(req, list):
        out = []
        for r in req:
            k, v = model_expected(parts, r)
            if k != 'ok':
                return k, v
            out += v
        keys = [a for a, _ in out]
        return 'ok', out
    if req in alias:
        exs = []
        seen = set()
        for mname in alias[req]:
            for eid, ex in datasets[mname].items():
                if eid in seen:
                    return 'error', 'overlapping example ids in alias'
                seen.add(eid)
                exs.append((eid, ex))
    else:
        exs = list(datasets[req].items())
    if not exs:
        return 'error', 'empty dataset'
    return 'ok', [(eid, {**copy.deepcopy(ex), 'example_id': eid, 'dataset': req})
                  for eid, ex in exs]


def valid_merge(parts):
    """model of the documented merge rules: duplicates across parts rejected"""
    if len(parts) == 1:
        return True
    names = set(parts[0]['datasets']) | set(parts[0].get('alias', {}))
    for p in parts[1:]:
        if set(p['datasets']) & names:
            return False
        if set(p.get('alias', {})) & names:
            return False
        names |= set(p['datasets']) | set(p.get('alias', {}))
    return True


def _norm_source(d):
    """datasets / examples / aliases of a source dict, empty alias == absent"""
    out = {k: copy.deepcopy(v) for k, v in d.items() if k != 'alias'}
    out['alias'] = copy.deepcopy(d.get('alias', {}))
    return out


def run_concurrent(case):
    """Two client threads request, hold briefly and release the same datasets of
    one (valid, Dict-backed) database under the seeded thread scheduler with
    line-granular pre-emption of lazy_dataset/database.py: every request is
    answered with the stored content, whatever the other client releases
    meanwhile."""
    import threading
    from .. import sim as S
    parts = case['parts']
    violations, probes, fired = [], {}, {}
    results = []
    with warnings.catch_warnings(record=True):
        warnings.simplefilter('always')
        with S.building():
            db = ldb.DictDatabase(*copy.deepcopy(parts))
        sim = S.Sim(case['sched'], trace_files=[ldb.__file__])

        def client(cid, plan):
            for req in plan:
                try:
                    ds = db.get_dataset(req)
                    got = list(ds.items())
                    sim.yield_point('client')
                    ds = None
                    results.append((cid, req, 'ok', [(k, W.norm(v)) for k, v in got]))
                except Exception as e:
                    results.append((cid, req, 'exc', '%s: %s' % (type(e).__name__, str(e)[:80])))
                sim.yield_point('client')

        with S.simulation(sim):
            try:
                ts = [threading.Thread(target=client, args=(c, p))
                      for c, p in enumerate(case['plans'])]
                for t in ts:
                    t.start()
                for t in ts:
                    t.join()
                sim.drain()
            except S.SimAbort:
                pass
    if sim.failure:
        violations.append(hist.viol('hang', 'hang:concurrent_clients',
                                    'two concurrent clients: %s' % sim.failure))
    for cid, req, kind, val in results:
        if violations:
            break
        k_, exp = model_expected(parts, req)
        if k_ != 'ok':
            continue
        if kind == 'exc':
            violations.append(hist.viol(
                'request_failed', 'request_failed:concurrent_clients:' + val.split(':')[0],
                'get_dataset(%r) raised %s while another client was requesting / releasing '
                'the same datasets' % (req, val)))
        elif val != [(a, W.norm(b)) for a, b in exp]:
            violations.append(hist.viol(
                'wrong_content', 'wrong_content:concurrent_clients',
                'get_dataset(%r) yields %s, stored content is %s'
                % (req, W.short(val, 150), W.short(exp, 150))))
    probes['two_client_threads'] = 1
    fired['concurrent_clients'] = 1
    fired['backend_dict'] = 1
    return hist.outcome(case, nontrivial=True, key=hist.hkey(case), violations=violations,
                        fired=fired, probes=probes,
                        stats={'ops': sum(len(p) for p in case['plans'])},
                        sample={'case': case}, digest_extra=[results])


def run(case):
    if case.get('mode') == 'concurrent':
        return run_concurrent(case)
    parts = case['parts']
    violations, probes, fired = [], {}, {}
    tmp = None

    def bad(cls, sig, msg):
        if not violations:
            violations.append(hist.viol(cls, sig, msg))

    later_alias_only = len(parts) > 1 and 'alias' not in parts[0] and \
        any('alias' in p for p in parts[1:])
    if later_alias_only:
        probes['alias_only_in_later_part'] = 1
    if len(parts) > 1 and any(not isinstance(v, (dict, list)) for k, v in parts[0].items()
                              if k not in ('datasets', 'alias')):
        probes['extra_top_level_scalar_with_merge'] = 1
    ok_merge = valid_merge(parts)
    with warnings.catch_warnings(record=True):
        warnings.simplefilter('always')    # recorded, not printed; never 'ignore': dependencies inspect warnings
        try:
            src = copy.deepcopy(parts)
            snap = [_norm_source(p) for p in src]
            paths = []
            if case['backend'] == 'json':
                tmp = tempfile.mkdtemp(prefix='c19_')
                if case.get('reused_path'):
                    # the same files held another description before, and a
                    # database object built from that one is still around
                    older = copy.deepcopy(parts)
                    for p_ in older:
                        for exs in p_['datasets'].values():
                            for ex in exs.values():
                                ex['v'] = ex['v'] + 5000
                    for i, p_ in enumerate(older):
                        with open(os.path.join(tmp, 'db%d.json' % i), 'w') as f:
                            json.dump(p_, f)
                    try:
                        pre_db = ldb.JsonDatabase(*[os.path.join(tmp, 'db%d.json' % i)
                                                    for i in range(len(older))])
                        pre_db.data
                        probes['files_rewritten_between_two_database_objects'] = 1
                    except Exception:
                        pre_db = None
                for i, p in enumerate(src):
                    path = os.path.join(tmp, 'db%d.json' % i)
                    with open(path, 'w') as f:
                        json.dump(p, f)
                    paths.append(path)
            db = None
            err = None
            try:
                sp = case.get('spelling', 0)
                if case['backend'] == 'dict':
                    # DictDatabase(d1, d2, ...), DictDatabase([d1, d2, ...]), DictDatabase((d1, ...))
                    arg_list = list(src)
                    db = ldb.DictDatabase(*src) if sp % 3 == 0 else \
                        ldb.DictDatabase(arg_list if sp % 3 == 1 else tuple(src))
                    if sp % 3 == 1:
                        # the caller goes on using its list (e.g. to build another database)
                        arg_list.append({'datasets': {'zzz_extra': {'q': {'v': 0}}}})
                        probes['callers_list_extended_after_construction'] = 1
                else:
                    import pathlib as _pl
                    pp = [_pl.Path(x) if (sp >> 2) & 1 else x for x in paths]
                    db = ldb.JsonDatabase(*pp) if sp % 3 == 0 else \
                        ldb.JsonDatabase(pp if sp % 3 == 1 else tuple(pp))
                    if sp % 3 == 1:
                        # the caller extends its list of paths before the database is
                        # first used (the files are loaded lazily)
                        extra_p = os.path.join(tmp, 'extra_for_another_db.json')
                        with open(extra_p, 'w') as f_:
                            json.dump({'datasets': {'zzz_extra': {'q': {'v': 0}}}}, f_)
                        pp.append(extra_p)
                        probes['callers_list_extended_after_construction'] = 1
                    db.data
                if sp % 3:
                    probes['constructor_given_a_list_or_tuple_of_parts'] = 1
                if sp % 3 == 1 and 'zzz_extra' in db.dataset_names:
                    bad('wrong_content', 'wrong_content:callers_list',
                        'the database serves a part the caller appended to its own list after '
                        'the database had been constructed: %s' % (db.dataset_names,))
            except Exception as e:
                err = e
            if not ok_merge and err is not None and db is not None:
                # asking again must not silently answer from a half-merged state
                names_ = sorted({n_ for p_ in parts for n_ in p_['datasets']})
                try:
                    db.data
                    if names_:
                        list(db.get_dataset(names_[0]))
                    bad('invalid_description_accepted', 'invalid_description_accepted:on_retry',
                        'a description with %s was rejected at first but a second access '
                        'was answered' % case['invalid'])
                except Exception:
                    probes['rejection_repeated_on_retry'] = 1
            if not ok_merge:
                if err is None:
                    bad('invalid_description_accepted', 'invalid_description_accepted:' + str(case['invalid']).split(':')[0],
                        'a description with %s across merged parts was accepted' % case['invalid'])
                else:
                    probes['invalid_description_rejected'] = 1
                    fired['invalid_' + str(case['invalid']).split(':')[0]] = 1
                    if case['invalid'] and 'part0' not in str(case['invalid']):
                        probes['duplicate_between_two_later_parts'] = 1
                return _finish(case, violations, probes, fired)
            if err is not None:
                bad('valid_description_rejected', 'valid_description_rejected:%s' % type(err).__name__,
                    'building the database from a valid description (%d parts, alias only in a '
                    'later part: %s) raised %r' % (len(parts), later_alias_only, err))
                return _finish(case, violations, probes, fired)
            # second database object: same dataset / alias names, other contents
            parts2, db2 = None, None
            if case.get('two_dbs'):
                parts2 = copy.deepcopy(parts)
                for p_ in parts2:
                    for exs in p_['datasets'].values():
                        for ex in exs.values():
                            ex['v'] = ex['v'] + 1000
                src2 = copy.deepcopy(parts2)
                if case['backend'] == 'dict':
                    db2 = ldb.DictDatabase(*src2)
                else:
                    paths2 = []
                    for i, p_ in enumerate(src2):
                        path = os.path.join(tmp, 'other%d.json' % i)
                        with open(path, 'w') as f:
                            json.dump(p_, f)
                        paths2.append(path)
                    db2 = ldb.JsonDatabase(*paths2)
                probes['two_database_objects_with_common_names'] = 1
            held = []           # (request, dataset object)
            last_examples = []  # python objects handed out
            active = db
            files_touched = False
            since_event = False
            for op in case['ops']:
                if violations:
                    break
                if op[0] == 'get':
                    _, req, hold = op[:3]
                    second = db2 is not None and len(op) > 3 and op[3] == 1
                    kind, exp = model_expected(parts2 if second else parts, req)
                    target = db2 if second else active
                    try:
                        # a list of names in one of its legal spellings
                        sp = case.get('spelling', 0)
                        req_arg = req
                        if isinstance(req, list) and sp % 3 == 1:
                            req_arg = tuple(req)
                        elif isinstance(req, list) and sp % 3 == 2:
                            req_arg = (r_ for r_ in req)
                        ds = target.get_dataset(req_arg)
                        if isinstance(req, list) and len(set(req)) != len(req):
                            # keys repeat: key iteration is refused by design, the
                            # examples are compared (each carries its example_id)
                            got = [(v['example_id'], v) for v in ds]
                            probes['list_request_with_a_repeated_name'] = 1
                        else:
                            got = list(ds.items())
                    except Exception as e:
                        if kind == 'error':
                            fired['expected_error_' + exp.split(' ')[0]] = 1
                            continue
                        bad('request_failed', 'request_failed:%s' % type(e).__name__,
                            'get_dataset(%r) raised %r' % (req, e))
                        break
                    if kind == 'error':
                        if exp.startswith('overlapping'):
                            bad('overlapping_ids_accepted', 'overlapping_ids_accepted',
                                'alias %r with overlapping example ids was served' % (req,))
                        continue
                    g = [(k, W.norm(v)) for k, v in got]
                    e_ = [(k, W.norm(v)) for k, v in exp]
                    if g != e_:
                        bad('wrong_content', 'wrong_content:%s' % ('list' if isinstance(req, list)
                                                                   else 'name'),
                            'get_dataset(%r) yields %s, stored content is %s'
                            % (req, W.short(g, 150), W.short(e_, 150)))
                        break
                    req_key = (req, second) if not isinstance(req, list) else None
                    if not isinstance(req, list):
                        for r0, d0 in held:
                            if r0 != req_key:
                                continue
                            if second:
                                if d0 is ds:
                                    probes['identity_while_held'] = 1
                                else:
                                    bad('not_shared', 'not_shared',
                                        'a second request for %r built a new dataset although '
                                        'the first one is still alive' % (req,))
                                continue
                            r0 = req
                            if r0 == req and d0 is not ds and active is db:
                                bad('not_shared', 'not_shared',
                                    'a second request for %r built a new dataset although the '
                                    'first one is still alive' % (req,))
                            elif r0 == req and active is db:
                                probes['identity_while_held'] = 1
                    if since_event:
                        fired['request_after_event'] = fired.get('request_after_event', 0) + 1
                    if hold:
                        held.append((req_key if req_key is not None else ('list',), ds))
                    last_examples = [v for _, v in got][:4]
                    ds = None
                elif op[0] == 'drop':
                    if held:
                        del held[op[1] % len(held)]
                        since_event = True
                elif op[0] == 'gc':
                    gc.collect()
                    since_event = True
                    if not held:
                        probes['request_after_gc_rebuilt'] = 1
                elif op[0] == 'mutate':
                    if last_examples:
                        ex = last_examples[op[1] % len(last_examples)]
                        how = op[2]
                        if how == 0:
                            ex['v'] = 'MUT'
                            ex['dataset'] = 'MUT'
                        elif how == 1:
                            ex.get('nested', {}).setdefault('l', []).append('MUT')
                        else:
                            ex.clear()
                        fired['client_mutation'] = fired.get('client_mutation', 0) + 1
                        since_event = True
                elif op[0] == 'pickle':
                    active = pickle.loads(pickle.dumps(active))
                    fired['pickle_roundtrip'] = fired.get('pickle_roundtrip', 0) + 1
                    probes['unpickled_database_answered'] = 1
                    since_event = True
                elif op[0] == 'file':
                    _, what, i = op
                    path = paths[i]
                    if what == 'remove':
                        if os.path.exists(path):
                            os.remove(path)
                        probes['file_removed_after_load'] = 1
                    else:
                        with open(path, 'w') as f:
                            json.dump({'datasets': {'zzz': {'q': {'v': 0}}}}, f)
                    fired['file_' + what] = fired.get('file_' + what, 0) + 1
                    since_event = True
                # sources unchanged (Dict-backed: the very dicts handed in)
                if case['backend'] == 'dict':
                    now = [_norm_source(p) for p in src]
                    if now != snap:
                        i = next(j for j in range(len(snap)) if now[j] != snap[j])
                        bad('source_changed', 'source_changed:part%d' % min(i, 1),
                            'source dictionary %d changed after %s: %s -> %s'
                            % (i, op, W.short(snap[i], 120), W.short(now[i], 120)))
        finally:
            if tmp:
                shutil.rmtree(tmp, ignore_errors=True)
    return _finish(case, violations, probes, fired)


def _finish(case, violations, probes, fired):
    fired['backend_' + case['backend']] = 1
    nontrivial = any(k in fired for k in ('request_after_event', 'pickle_roundtrip',
                                          'file_remove', 'file_rewrite', 'client_mutation')) \
        or any(k.startswith('invalid_') for k in fired)
    return hist.outcome(case, nontrivial=nontrivial, key=hist.hkey(case), violations=violations,
                        fired=fired, probes=probes, stats={'ops': len(case['ops'])},
                        sample={'case': case}, digest_extra=None)


def shrink(case):
    yield from hist.shrink_ops(case, 'ops')
    parts = case['parts']
    for pi in range(len(parts)):
        for k in [k for k in parts[pi] if k not in ('datasets', 'alias')]:
            c = hist.clone(case)
            del c['parts'][pi][k]
            yield c
    if case['backend'] == 'json' and not any(o[0] in ('pickle', 'file') for o in case['ops']):
        c = hist.clone(case)
        c['backend'] = 'dict'
        yield c
