"""C07 - prefetch read-ahead is bounded by the buffer size."""
from .. import pargen, parrun, parprops
from ..parprops import COMPONENTS, ASSUMPTIONS  # noqa

PROP = 'C07'
LEVEL = 'exploration'
RULE = ('family = source of length n in 2b+4..24 -> map(u0) [-> map(u1)] -> prefetch '
        '(single-thread and pool paths) or parallel map, optional downstream map; '
        '4 schedules per family biased to starve or pause the consumer (it only runs '
        'when nothing else can, plus think pauses up to 40 yield points between '
        'reads). Oracle over the history: max over all moments of (pulled - '
        'delivered) <= buffer_size + 2 and (started - delivered) <= buffer_size. '
        'Non-trivial = the run had a real context switch; distinct = distinct '
        '(pipeline, schedule signature). Every 200th family is systematic: buffer 1-2, '
        'n = 2b+4, the non-preemptive baseline schedule and ALL schedules with exactly one '
        'forced context switch.')
PROBES = ['dropped_example_in_read_ahead_accounting', 'all_single_preemption_schedules_of_a_small_workload', 'pull_bound_b_plus_2_reached', 'start_bound_b_reached']
BUDGET = {
    'quick': {'families': 2800, 'wall_cap': 420, 'shrink_s': 15},
    'thorough': {'families': 30000, 'wall_cap': 5400, 'shrink_s': 40},
}

POLICIES = [
    {'policy': 'starve', 'params': {'victim': 'consumer', 'p': 0.6}},
    {'policy': 'starve', 'params': {'victim': 'consumer', 'p': 0.9}},
    {'policy': 'starve', 'params': {'victim': 'consumer', 'p': 0.0}},
    {'policy': 'random'},
    {'policy': 'sticky', 'params': {'p': 0.8}},
    {'policy': 'pct', 'params': {'d': 3, 'horizon': 1500}},
]


def gen_systematic(rng):
    """small buffer, n = 2b+4, ALL one-preemption schedules"""
    par = rng.choice([{'op': 'prefetch', 'w': 1, 'b': 1, 'backend': 't'},
                      {'op': 'prefetch', 'w': 1, 'b': 2, 'backend': 't'},
                      {'op': 'prefetch', 'w': 2, 'b': 2, 'backend': 't'},
                      {'op': 'parmap', 'id': 'p', 'w': 1, 'b': 1, 'backend': 't'},
                      {'op': 'parmap', 'id': 'p', 'w': 2, 'b': 2, 'backend': 't'}])
    desc = {'source': {'kind': 'list', 'n': 2 * par['b'] + 4},
            'stages': [{'op': 'map', 'id': 'u0'}, dict(par)]}
    base = {'desc': desc, 'epochs': 1, 'cost_seed': None, 'think_seed': 0, 'think_max': 0,
            'trace': ['parallel_utils'], 'systematic': 1}
    return parprops.one_preemption_cases(base, parrun.run_par_case, max_cases=900)


def gen(rng, tier, index):
    if index % 200 == 199:
        return gen_systematic(rng)
    backends = ('t',) if rng.random() < 0.6 else tuple(pargen.BACKENDS_POOL)
    par = pargen.gen_par_stage(rng, backends=backends, max_extra_b=3, single_p=0.4,
                               catch_p=0.2)
    b = par['b']
    n = rng.randrange(2 * b + 4, 25)
    stages = [{'op': 'map', 'id': 'u0'}]
    if rng.random() < 0.15:
        # an input without a defined order (`ordered` is False): the bound is the same
        stages.insert(0, {'op': 'reshuffle', 'seed': rng.randrange(1000)})
    if rng.random() < 0.3:
        stages.append({'op': 'map', 'id': 'u1'})
    stages.append(par)
    if rng.random() < 0.3:
        stages.append({'op': 'map', 'id': 'd0'})
    desc = {'source': {'kind': rng.choice(['list', 'dict']), 'n': n},
            'stages': stages}
    assert pargen.abs_eval(desc) is not None
    faults = []
    if par.get('catch'):
        # the stage drops failing examples: some examples fail with a selected type
        spec = par['catch']
        kinds = {True: ['filter', 'filter_sub'], 'value': ['value'], 'filter_sub': ['filter_sub']}.get(
            spec if not isinstance(spec, list) else None, None) or list(spec)
        faults = [{'stage': 'u0', 'pos': p_, 'exc': rng.choice(kinds)}
                  for p_ in range(n) if rng.random() < 0.3]
    elif rng.random() < 0.2:
        # one example fails with an exception nobody catches: the bound holds up to
        # and including the moment the failure is reported (no job is run again)
        site = par['id'] if par['op'] == 'parmap' and rng.random() < 0.7 else 'u0'
        faults = [{'stage': site, 'pos': rng.randrange(b, n),
                   'exc': rng.choice(['value', 'key', 'index', 'filter', 'base'])}]
    # key iteration over a parallel map sends (key, example) pairs to the workers
    items = desc['source']['kind'] == 'dict' and stages[-1] is par and not par.get('catch') and \
        (par['op'] == 'parmap' or not pargen.is_pool(par)) and rng.random() < 0.5
    cases = []
    for j in range(4):
        sched = dict(rng.choice(POLICIES), seed=rng.randrange(1 << 30))
        cases.append({
            'desc': desc, 'sched': sched, 'epochs': rng.choice([1, 2, 2] if faults else [1, 1, 2]),
            'faults': faults, 'items': bool(items),
            # the bound also holds while (and after) the consumer stops early
            **({'stop': {'kind': rng.choice(['close', 'close', 'exc', 'drop']),
                         'k': rng.randrange(0, n), 'delay': rng.randrange(0, 4)}}
               if rng.random() < 0.3 else {}),
            'cost_seed': rng.randrange(1000), 'think_seed': rng.randrange(1000),
            'think_max': rng.choice([0, 5, 40]),
            'trace': ['parallel_utils', 'core'] if rng.random() < 0.2
            else ['parallel_utils']})
    return cases


def run(case):
    res = parrun.run_par_case(case)
    out = parprops.base_outcome(case, res)
    if case.get('systematic'):
        out['fired']['systematic_one_preemption'] = 1
        out['probes']['all_single_preemption_schedules_of_a_small_workload'] = 1
    if not parprops.check_failure(case, res, out):
        parprops.check_read_ahead(case, res, out)
    return out


shrink = parprops.shrink_par
