"""C20 - the profiling wrapper is transparent and counts truthfully."""
import warnings

import numpy as np

from lazy_dataset import core as ldc
from lazy_dataset import parallel_utils as ldp

from .. import hist, pargen, sim as S
from .. import workload as W

PROP = 'C20'
LEVEL = 'exploration'
RULE = ('family = one generated pipeline (single- and multi-input stages: map, slice, '
        'batch, lazy / eager filter, items, concatenate, zip, sort, seeded one-time / '
        'per-epoch / buffer-local shuffle, fragment+unbatch, cache, catch with an '
        'injected fault plan, optionally a thread prefetch run under the thread '
        'simulator) observed plain, wrapped in ProfilingDataset and wrapped in an '
        'independent reference counter: full iteration (1-2 epochs), iteration stopped '
        'after k (also with the iterator left suspended while the counters are read), and '
        'ds[i] for every i of indexable pipelines; 15% of the pipelines contain falsy '
        'examples. Oracle: observations '
        '(examples, order, length, exception and its position) of wrapped == plain; the '
        'wrapped pipeline object and its stage links are untouched; per wrapper node '
        'hit_count equals the reference counter, and for map stages the number of '
        'successful fetches equals the number of completed function applications in '
        'the event log. Non-trivial = pipeline with at least 3 stages or a fault fired; '
        'distinct = distinct (pipeline, mode, fault plan, schedule seed).')
PROBES = ['pipeline_without_copy_refused_by_the_wrapper', 'two_iterators_over_the_wrapper_in_flight', 'counters_read_while_iterator_suspended', 'original_iterated_after_wrapper', 'failed_fetch_counted', 'multi_input_stage_wrapped', 'behind_thread_prefetch',
          'items_stage_inside', 'partial_iteration', 'indexing_through_wrapper']
BUDGET = {
    'quick': {'families': 8000, 'wall_cap': 420, 'shrink_s': 12},
    'thorough': {'families': 80000, 'wall_cap': 5400, 'shrink_s': 30},
}
COMPONENTS = {
    'real': ['lazy_dataset.core.ProfilingDataset (constructor rewiring, __iter__, __getitem__, copy) '
             'over real pipelines', 'lazy_dataset.parallel_utils under the thread simulator when the '
             'pipeline contains a thread prefetch'],
    'replaced_by_simulator': ['ProfilingDataset.timestamp reads the virtual clock (time.perf_counter seam)',
                              'thread schedule of prefetch stages', 'which evaluations fail (fault plan)'],
    'stub': [],
}
ASSUMPTIONS = ['hit counters are compared with an independent 25-line reference counter and, for map '
               'stages, with the function applications in the event log',
               'shared counters are exercised at source-line granularity (a lost update inside one '
               'line is not explored)']


class RefProfile(ldc.Dataset):
    """Independent reference: counts fetches / failed fetches per stage."""

    def __init__(self, ds):
        ds = ds.copy()
        self.count = [0, 0]
        if hasattr(ds, 'input_datasets'):
            ds.input_datasets = [RefProfile(d) for d in ds.input_datasets]
        if hasattr(ds, 'input_dataset'):
            ds.input_dataset = RefProfile(ds.input_dataset)
        self.input_dataset = ds

    def __len__(self):
        return len(self.input_dataset)

    def keys(self):
        return self.input_dataset.keys()

    @property
    def indexable(self):
        return self.input_dataset.indexable

    @property
    def ordered(self):
        return self.input_dataset.ordered

    def __iter__(self, with_key=False):
        it = self.input_dataset.__iter__(with_key=True) if with_key \
            else iter(self.input_dataset)
        while True:
            try:
                x = next(it)
            except StopIteration:
                return
            except Exception:
                self.count[0] += 1
                self.count[1] += 1
                raise
            self.count[0] += 1
            yield x

    def __getitem__(self, item):
        import numbers
        if not isinstance(item, (str, numbers.Integral)):
            return ldc.Dataset.__getitem__(self, item)      # slice of the counter
        self.count[0] += 1
        try:
            return self.input_dataset[item]
        except Exception:
            self.count[1] += 1
            raise

    def copy(self, freeze=False):
        new = self.__class__.__new__(self.__class__)
        new.input_dataset = self.input_dataset.copy(freeze=freeze)
        new.count = self.count
        return new


def wrapper_nodes(w, attr):
    """pre-order list of (wrapped stage class name, counters) of a wrapper tree"""
    out = []
    todo = [w]
    while todo:
        x = todo.pop()
        inner = x.input_dataset
        out.append((type(inner).__name__, list(getattr(x, attr)),
                    getattr(getattr(inner, 'map_function', None), 'stage', None)))
        if hasattr(inner, 'input_dataset'):
            todo.append(inner.input_dataset)
        if hasattr(inner, 'input_datasets'):
            todo.extend(reversed(list(inner.input_datasets)))
    return out


def structure(ds):
    """[(stage object, vars without links, ids of its inputs)] of a pipeline"""
    out = []
    todo = [ds]
    while todo:
        d = todo.pop()
        links = []
        if hasattr(d, 'input_dataset'):
            links.append(d.input_dataset)
            todo.append(d.input_dataset)
        if hasattr(d, 'input_datasets'):
            links.extend(d.input_datasets)
            todo.extend(reversed(list(d.input_datasets)))
        attrs = {}
        for k, v in vars(d).items():
            if k in ('input_dataset', 'input_datasets', '_permutation', '_keys', 'rng',
                     '_cache'):
                continue
            attrs[k] = v if isinstance(v, (int, str, bool, float, type(None), tuple)) \
                else (v.tolist() if isinstance(v, np.ndarray) else id(v))
        out.append((d, attrs, [id(x) for x in links]))
    return out


def gen_desc(rng):
    for _ in range(200):
        n = rng.randrange(0, 8)
        kind = rng.choice(['list', 'dict'])
        desc = {'source': {'kind': kind, 'n': n},
                'stages': [{'op': 'map', 'id': 'u0'}]}
        if rng.random() < 0.15:
            # some examples are None / 0 / '' / [] ... (legal examples)
            desc['stages'].append({'op': 'falsy', 'id': 'uf', 'mod': rng.randrange(2, 4),
                                   'rem': rng.randrange(0, 2),
                                   'val': rng.choice(['none', 'none', 'zero', 'empty',
                                                      'emptylist', 'false'])})
        a = pargen.abs_eval(desc)
        offset = 100
        has_catch = False
        for j in range(rng.randrange(1, 5)):
            for _try in range(6):
                r = rng.random()
                sid = 'u%d' % (j + 1)
                if r < 0.1 and not has_catch:
                    sts = [{'op': 'catch', 'exc': rng.choice(['filter', 'value', ['filter', 'key'],
                                                                 ['value', 'stopiter']])}]
                elif r < 0.2:
                    sts = [{'op': 'prefetch', 'w': rng.randrange(1, 4), 'b': 3, 'backend': 't'}]
                    if rng.random() < 0.5:
                        sts[0]['w'] = 1
                    if rng.random() < 0.3:
                        # the prefetch stage itself drops failing examples
                        sts[0]['catch'] = rng.choice([True, 'value', ['filter', 'key'], 'index',
                                                      ['filter', 'stopiter']])
                elif 0.3 <= r < 0.34:
                    # a user-written stage inside the profiled pipeline
                    sts = [{'op': 'userstage', 'plain': rng.random() < 0.6}]
                elif r < 0.3:
                    st = {'op': rng.choice(['reshuffle', 'local_shuffle', 'shuffle', 'apply']),
                          'seed': rng.randrange(1 << 16)}
                    if st['op'] == 'local_shuffle':
                        st['bs'] = rng.randrange(1, 4)
                    sts = [st]
                else:
                    sts = pargen.gen_upstream_stage(rng, a, sid, True)
                    for st in sts:
                        if st['op'] in ('concat', 'zip', 'intersperse', 'keyzip'):
                            st['offset'] = offset
                            offset += 100
                b = a
                for st in sts:
                    b = pargen.abs_apply(b, st) if b is not None else None
                if b is not None:
                    desc['stages'] += sts
                    a = b
                    has_catch = has_catch or sts[0]['op'] == 'catch'
                    break
        return desc, a
    raise RuntimeError('no pipeline')


def gen(rng, tier, index):
    desc, a = gen_desc(rng)
    if desc['source']['kind'] == 'list' and rng.random() < 0.06 and \
            not any(s['op'] in ('apply', 'tile') for s in desc['stages']):
        # the source is a user-written dataset without copy(): the profiler may
        # refuse such a pipeline, it must not rewire the user's stage objects
        d2 = dict(desc, source=dict(desc['source'], kind='user_nocopy'))
        a2 = pargen.abs_eval(d2)
        if a2 is not None:
            desc, a = d2, a2
    n = desc['source']['n']
    has_pf = any(s['op'] == 'prefetch' for s in desc['stages'])
    catch_pos = next((i for i, s in enumerate(desc['stages']) if s['op'] == 'catch'), None)
    faults = []
    if n and rng.random() < 0.5:
        upto = catch_pos if catch_pos is not None else len(desc['stages'])
        sites = [s['id'] for s in desc['stages'][:upto] if s['op'] == 'map'] or ['u0']
        for _ in range(rng.randrange(1, 3)):
            faults.append({'stage': rng.choice(sites), 'pos': rng.randrange(n),
                           'exc': rng.choice(['filter', 'value', 'key', 'index', 'stopiter'])})
    nout = len(a.elems) if a.elems is not None else n
    cases = []
    base = {'desc': desc, 'faults': faults, 'seed': rng.randrange(1 << 30)}
    lazy_apply = any(s_['op'] == 'apply' for s_ in desc['stages'])
    # (a lazily applied stateful function is evaluated anew in every epoch)
    cases.append(dict(base, mode='iter', k=None, epochs=3 if lazy_apply else rng.choice([1, 2])))
    if not has_pf:
        for k in sorted({0, rng.randrange(0, nout + 1)}):
            cases.append(dict(base, mode='iter', k=k, epochs=1))
        # the counters are read while the iterator is still suspended
        cases.append(dict(base, mode='iter', k=rng.randrange(0, nout + 1), epochs=1,
                          hold=True))
        # two iterators over the wrapped pipeline in flight at once
        cases.append(dict(base, mode='iter', k=None, epochs=1, interleave=True))
        if a.indexable and a.elems is not None:
            for i in range(len(a.elems)):
                cases.append(dict(base, mode='index', i=i))
            # indices of either sign, also outside the dataset: the wrapper answers
            # (or refuses) exactly like the plain pipeline
            m_ = len(a.elems)
            for i in sorted({-1, -m_, -m_ - 1, -2 * m_, m_, m_ + 2}):
                cases.append(dict(base, mode='index', i=i))
    return cases


def observe(ds, case, ctx, use_sim, held=None):
    """-> (observation, sim failure).  With case['hold'] a partially consumed
    iterator is left suspended (appended to `held`) instead of being closed."""
    obs = {'len': None, 'epochs': []}
    try:
        obs['len'] = len(ds)
    except TypeError:
        obs['len'] = 'TypeError'
    except Exception as e:
        obs['len'] = type(e).__name__
    ctx.armed = True
    ctx.event('observe')

    def body():
        if case['mode'] == 'index':
            try:
                obs['epochs'].append(['value', W.norm(ds[case['i']])])
            except Exception as e:
                obs['epochs'].append(['error', W.exc_kind_of(e), W.norm(e.args)])
            return
        if case.get('interleave'):
            # two iterators over the same object, advanced alternately
            its = [iter(ds), iter(ds)]
            outs = [[], []]
            live = [True, True]
            rec = ['exhausted', outs, None]
            try:
                turn = 0
                while any(live):
                    j = turn % 2
                    turn += 1
                    if not live[j]:
                        continue
                    try:
                        outs[j].append(W.norm(next(its[j])))
                    except StopIteration:
                        live[j] = False
            except Exception as e:
                rec[0] = 'error'
                rec[2] = [W.exc_kind_of(e), W.norm(e.args)]
            its = None
            obs['epochs'].append(rec)
            return
        for ep in range(case['epochs']):
            out = []
            rec = ['exhausted', out, None]
            it = iter(ds)
            try:
                k = 0
                while True:
                    if case['k'] is not None and k == case['k']:
                        if case.get('hold') and held is not None:
                            held.append(it)
                        else:
                            W.close_iter(it)
                        rec[0] = 'stopped'
                        break
                    out.append(W.norm(next(it)))
                    k += 1
            except StopIteration:
                pass
            except Exception as e:
                rec[0] = 'error'
                rec[2] = [W.exc_kind_of(e), W.norm(e.args)]
            it = None
            obs['epochs'].append(rec)
            if rec[0] == 'error':
                break

    if not use_sim:
        body()
        return obs, None
    sim = S.Sim({'policy': 'random', 'seed': case['seed']},
                trace_files=[ldp.__file__, ldc.__file__])
    ctx.sim = sim
    sim.log = ctx._log
    sim.seq = ctx._seq
    saved = ldc.ProfilingDataset.timestamp
    ldc.ProfilingDataset.timestamp = staticmethod(lambda: 1000.0 + sim.now)
    try:
        with S.simulation(sim):
            try:
                body()
                sim.drain()
            except S.SimAbort:
                pass
    finally:
        ldc.ProfilingDataset.timestamp = saved
        ctx._seq = sim.seq
        ctx.sim = None
    return obs, sim.failure


def run(case):
    desc = case['desc']
    use_sim = any(s['op'] == 'prefetch' for s in desc['stages'])
    violations, probes, fired = [], {}, {}

    def bad(cls, sig, msg):
        if not violations:
            violations.append(hist.viol(cls, sig, msg))

    with warnings.catch_warnings(record=True):
        warnings.simplefilter('always')    # recorded, not printed; never 'ignore': dependencies inspect warnings
        # 1. plain
        ctxA = W.set_ctx(W.Ctx(faults=case['faults']))
        plain = W.build(desc)
        obsA, failA = observe(plain, case, ctxA, use_sim)
        # 2. wrapped
        ctxB = W.set_ctx(W.Ctx(faults=case['faults']))
        orig = W.build(desc)
        before = structure(orig)
        try:
            wrapped = ldc.ProfilingDataset(orig)
        except Exception as e:
            wrapped = None
            if desc['source'].get('kind') == 'user_nocopy':
                # a loud refusal of a pipeline that cannot be copied is fine; the
                # pipeline must be exactly what it was
                probes['pipeline_without_copy_refused_by_the_wrapper'] = 1
                after = structure(orig)
                if [(id(d), a_, l) for d, a_, l in before] != [(id(d), a_, l) for d, a_, l in after]:
                    bad('wrapped_pipeline_modified', 'wrapped_pipeline_modified:refused',
                        'ProfilingDataset(pipeline) refused (%r) but changed the pipeline object' % (e,))
                else:
                    obs_o, fo = observe(orig, case, ctxB, use_sim)
                    if not (failA or fo) and obs_o != obsA:
                        bad('original_pipeline_affected', 'original_pipeline_affected:refused',
                            'after the refused wrapping the pipeline yields %s instead of %s'
                            % (W.short(obs_o, 150), W.short(obsA, 150)))
            else:
                bad('wrapping_failed', 'wrapping_failed:%s' % type(e).__name__,
                    'ProfilingDataset(pipeline) raised %r' % (e,))
        if wrapped is not None:
            heldB, heldC = [], []
            obsB, failB = observe(wrapped, case, ctxB, use_sim, heldB)
            logB = list(ctxB.log)
            after = structure(orig)
            # 2b. the original pipeline must behave as if an ordinary copy() of
            # it had been used instead of the wrapper (hidden shared state, e.g.
            # a per-epoch permutation buffer, shows in its next iteration)
            same_after = None
            if case['mode'] == 'iter' and not case.get('hold') and not case.get('interleave') and \
                    desc['source'].get('kind') != 'user_nocopy' and any(
                    s_['op'] in ('reshuffle', 'local_shuffle', 'shuffle', 'apply') for s_ in desc['stages']):
                full = dict(case, k=None, epochs=1)
                obs_o, fo = observe(orig, full, ctxB, use_sim)
                ctxD = W.set_ctx(W.Ctx(faults=case['faults']))
                d_orig = W.build(desc)
                d_copy = d_orig.copy()
                obs_dc, _f = observe(d_copy, case, ctxD, use_sim)
                obs_d, fd = observe(d_orig, full, ctxD, use_sim)
                # behind a thread prefetch an iteration that ends early has
                # drawn a schedule dependent amount from the generators
                settled = not use_sim or all(
                    ep[0] == 'exhausted' for o_ in (obsB, obs_dc) for ep in o_['epochs'])
                if settled:
                    same_after = (obs_o == obs_d, obs_o, obs_d)
                    probes['original_iterated_after_wrapper'] = 1
            # 3. reference counter
            ctxC = W.set_ctx(W.Ctx(faults=case['faults']))
            ref = RefProfile(W.build(desc))
            obsC, failC = observe(ref, case, ctxC, use_sim, heldC)
            fired.update(ctxB.fired)
            if failA or failB or failC:
                bad('hang', 'hang:%s' % (failA or failB or failC),
                    'simulator: %s (plain %s, wrapped %s)' % (failC, failA, failB))
            elif obsA != obsB:
                what = 'length' if obsA['len'] != obsB['len'] else 'observations'
                tag = 'items' if any(s['op'] == 'items' for s in desc['stages']) else 'plain'
                eb = obsB['epochs'][0] if obsB['epochs'] else None
                ek = eb[2][0] if (eb and eb[0] == 'error' and eb[2]) else \
                    (eb[1] if eb and eb[0] == 'error' else '')
                bad('wrapper_not_transparent', 'wrapper_not_transparent:%s:%s:%s' % (what, tag, ek),
                    'plain pipeline observed %s, wrapped in ProfilingDataset %s'
                    % (W.short(obsA, 200), W.short(obsB, 200)))
            else:
                if same_after is not None and not same_after[0]:
                    bad('original_pipeline_affected', 'original_pipeline_affected',
                        'after the profiled copy was iterated the original pipeline yields %s; '
                        'after an ordinary copy() was iterated instead it yields %s'
                        % (W.short(same_after[1], 150), W.short(same_after[2], 150)))
                if [(id(d), a, l) for d, a, l in before] != [(id(d), a, l) for d, a, l in after]:
                    i = next(j for j in range(len(before))
                             if (before[j][1], before[j][2]) != (after[j][1], after[j][2]))
                    bad('wrapped_pipeline_modified', 'wrapped_pipeline_modified:%s'
                        % type(before[i][0]).__name__,
                        'wrapping / iterating changed stage %s of the original pipeline object'
                        % type(before[i][0]).__name__)
                nw = wrapper_nodes(wrapped, 'hit_count')
                nr = wrapper_nodes(ref, 'count')
                # a prefetch stage looks ahead by a schedule dependent amount:
                # counters are only comparable when every epoch ran to its end
                comparable = not use_sim or all(
                    ep[0] == 'exhausted' for ep in obsB['epochs'])
                # a memory cache below a multi-worker prefetch: two workers that
                # miss the same index at the same time both fetch it, so the
                # number of fetches below the cache depends on the schedule (and
                # the wrapped and the reference run are scheduled independently)
                sts_ = desc['stages']
                for j_, s_ in enumerate(sts_):
                    if s_['op'] == 'cache' and any(
                            x['op'] == 'prefetch' and pargen.is_pool(x) for x in sts_[j_ + 1:]):
                        comparable = False
                if not comparable:
                    pass
                elif [x[0] for x in nw] != [x[0] for x in nr]:
                    bad('wrapper_tree_differs', 'wrapper_tree_differs',
                        'wrapper nodes %s, reference %s' % ([x[0] for x in nw], [x[0] for x in nr]))
                else:
                    for (cls, hc, stage), (_, rc, _s) in zip(nw, nr):
                        if hc != rc:
                            which = 'failed' if hc[0] == rc[0] else 'hits'
                            bad('hit_count_wrong', 'hit_count_wrong:%s:%s' % (which, cls),
                                'stage %s: hit_count %s, examples actually fetched %s '
                                '(reference counter [fetched, failed])' % (cls, hc, rc))
                            break
                        if hc[1]:
                            probes['failed_fetch_counted'] = 1
                    # ground truth for map stages: successful fetches == completed calls
                    rets = {}
                    start = next(e[0] for e in logB if e[2] == 'observe')
                    for e in logB:
                        if e[2] == 'ret' and e[0] > start:
                            rets[e[3]] = rets.get(e[3], 0) + 1
                    for cls, hc, stage in nw:
                        if stage is not None and cls == 'MapDataset' and \
                                hc[0] - hc[1] != rets.get(stage, 0):
                            bad('hit_count_wrong', 'hit_count_wrong:vs_event_log:%s' % cls,
                                'map stage %s: %d successful fetches counted, %d function '
                                'applications completed' % (stage, hc[0] - hc[1], rets.get(stage, 0)))
                            break
            for it_ in heldB + heldC:
                W.close_iter(it_)
            if case.get('hold'):
                probes['counters_read_while_iterator_suspended'] = 1
        W.set_ctx(None)
    ops = {s['op'] for s in desc['stages']}
    if ops & {'concat', 'zip'}:
        probes['multi_input_stage_wrapped'] = 1
    if use_sim:
        probes['behind_thread_prefetch'] = 1
        fired['thread_prefetch'] = 1
    if 'items' in ops:
        probes['items_stage_inside'] = 1
    if case['mode'] == 'iter' and case['k'] is not None:
        probes['partial_iteration'] = 1
    if case.get('interleave'):
        probes['two_iterators_over_the_wrapper_in_flight'] = 1
    if case['mode'] == 'index':
        probes['indexing_through_wrapper'] = 1
    fired['mode_' + case['mode']] = 1
    nontrivial = len(desc['stages']) >= 3 or any(k in W.EXC_KINDS for k in fired)
    return hist.outcome(case, nontrivial=nontrivial, key=hist.hkey(case), violations=violations,
                        fired=fired, probes=probes, stats={'stages': len(desc['stages'])},
                        sample={'case': case}, digest_extra=None)


def shrink(case):
    for i in range(len(case['faults'])):
        c = hist.clone(case)
        del c['faults'][i]
        yield c
    desc = case['desc']
    for i in range(len(desc['stages']) - 1, 0, -1):
        c = hist.clone(case)
        st = c['desc']['stages'][i]
        if st['op'] == 'fragment':
            continue
        if st['op'] == 'unbatch':
            del c['desc']['stages'][i - 1:i + 1]
        else:
            del c['desc']['stages'][i]
        a = pargen.abs_eval(c['desc'])
        if a is None:
            continue
        if case['mode'] == 'index' and (not a.indexable or a.elems is None
                                        or case['i'] >= len(a.elems)):
            continue
        yield c
    n = desc['source']['n']
    if n > 1:
        c = hist.clone(case)
        c['desc']['source']['n'] = n - 1
        for st in c['desc']['stages']:
            if st['op'] == 'zip':
                st['n'] = n - 1
        a = pargen.abs_eval(c['desc'])
        if a is not None:
            c['faults'] = [f for f in c['faults'] if f['pos'] < n - 1]
            if not (case['mode'] == 'index' and (a.elems is None or case['i'] >= len(a.elems))):
                yield c
    if case.get('epochs', 1) > 1:
        c = hist.clone(case)
        c['epochs'] = 1
        yield c
