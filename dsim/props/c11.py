"""C11 - disk cache is reused exactly and cleared exactly when asked."""
import os
import gc
import sys
import json
import errno
import pathlib
import shutil
import sqlite3
import tempfile
import warnings
import collections

import diskcache
import diskcache.core as dcc

import lazy_dataset
from lazy_dataset import core as ldc

from .. import hist
from .. import workload as W

PROP = 'C11'
LEVEL = 'fault_enumeration'
RULE = ('family = one cache directory, a source of 1-6 examples and a child-writer plan; '
        'cases: (a) for the writer plan EVERY kill point "right after a completed '
        'store/access" plus sampled kill points anywhere, including inside '
        'diskcache.Cache.set (a forked child opens the directory with reuse=True, '
        'performs the access plan (index of either sign, numpy integer, key, copy, full / '
        'partial / slice iteration), acknowledges each completed access and every example '
        'an iteration has handed to it on a pipe and is '
        'killed with os._exit(9) at Python-line step N of lazy_dataset/core.py + '
        'diskcache/core.py: no __del__, no atexit, no sqlite close), then the parent '
        'reopens with reuse=True and reads everything; (b) 3 lifecycle histories of '
        '6-18 operations: open(reuse, clear), access (index of either sign, key, '
        'iteration, slice, through copy), copy, release, reopen, disk nearly full / full '
        '(shutil.disk_usage seam), store error (ENOSPC / sqlite OperationalError on the '
        'N-th store). Reference model: directory contents index -> value, handles and '
        'sharing groups, upstream call counters. Non-trivial = a kill, fault, reopen or '
        'release happened; distinct = distinct (plan / history, kill point).')
PROBES = ['directory_chosen_by_the_library', 'directory_name_with_pattern_characters', 'foreign_file_in_directory_at_open', 'examples_stored_as_separate_files', 'killed_inside_cache_set', 'killed_right_after_store', 'acked_index_served_after_kill',
          'inflight_index_after_kill', 'reuse_false_refused', 'copy_outlived_original',
          'directory_removed_on_last_release', 'directory_kept_on_release',
          'disk_full_raised_on_miss', 'disk_full_hit_still_served', 'store_error_propagated',
          'write_lock_busy_store_retried', 'directory_spelled_with_variable_or_tilde']
BUDGET = {
    'quick': {'families': 440, 'wall_cap': 420, 'shrink_s': 15},
    'thorough': {'families': 6000, 'wall_cap': 5400, 'shrink_s': 40},
}
COMPONENTS = {
    'real': ['lazy_dataset.core.DiskCacheDataset / _DiskCacheWrapper / inherited CacheDataset.__getitem__',
             'diskcache.Cache + sqlite3 on a real per-run temporary directory',
             'a real forked child process as the cache writer, killed with os._exit(9)'],
    'replaced_by_simulator': ['the instant of the kill (Python-line step counter via sys.settrace in the child)',
                              'shutil.disk_usage (free space read from simulator state)',
                              'diskcache.Cache.__setitem__ wrapped to fail on the N-th store'],
    'stub': [],
}
ASSUMPTIONS = ['crash granularity is a Python line of lazy_dataset/core.py or diskcache/core.py; a kill in the '
               'middle of a C-level sqlite call is sqlite\'s atomic-commit business and is not simulated',
               'a process kill, not a power loss: data handed to the OS survives',
               'at most one cache wrapper with clear=True is open on the directory at a time']

GiB = 1024 ** 3
# functions of diskcache/core.py that make up one store (file write, row insert)
SET_FUNCS = ('set', '__setitem__', 'store', '_row_insert', '_row_update', '_transact',
             '_cull', 'filename', '_write')
TRACED = (os.path.realpath(ldc.__file__), os.path.realpath(dcc.__file__))


class Disk:
    free = 100 * GiB


def _fake_disk_usage(path):
    return collections.namedtuple('usage', 'total used free')(500 * GiB, 500 * GiB - Disk.free, Disk.free)


class StoreFault:
    countdown = None
    kind = None
    fired = 0


_orig_setitem = diskcache.Cache.__setitem__


def _faulty_setitem(self, key, value):
    if StoreFault.countdown is not None:
        StoreFault.countdown -= 1
        if StoreFault.countdown < 0:
            StoreFault.countdown = None
            StoreFault.fired += 1
            if StoreFault.kind == 'enospc':
                raise OSError(errno.ENOSPC, 'No space left on device (injected)')
            raise sqlite3.OperationalError('database or disk is full (injected)')
    return _orig_setitem(self, key, value)


class BusyFault:
    """another connection holds the sqlite write lock: the N-th attempt to start a
    write transaction and the k-1 following ones fail with 'database is locked'
    (what sqlite reports when its busy timeout has expired; the wait itself is
    virtual)"""
    countdown = None
    left = 0
    fired = 0


_orig_sql = diskcache.Cache._sql


def _busy_sql(self):
    ex = self._con.execute

    def execute(statement, *args, **kw):
        if BusyFault.countdown is not None and isinstance(statement, str) \
                and statement.lstrip().upper().startswith('BEGIN IMMEDIATE'):
            if BusyFault.left > 0:
                BusyFault.left -= 1
                BusyFault.fired += 1
                if BusyFault.left == 0:
                    BusyFault.countdown = None
                raise sqlite3.OperationalError('database is locked (injected)')
            BusyFault.countdown -= 1
            if BusyFault.countdown < 0:
                BusyFault.left = BusyFault.k - 1
                BusyFault.fired += 1
                if BusyFault.left == 0:
                    BusyFault.countdown = None
                raise sqlite3.OperationalError('database is locked (injected)')
        return ex(statement, *args, **kw)
    return execute


BIG = [False]
NONEVALS = [False]


class NoneFn(W.MapFn):
    """the loader returns None for every third example"""

    def __call__(self, x):
        ctx, ids = W._enter(self.stage, x)
        ctx.event('ret', self.stage, ids)
        if NONEVALS[0] == 'str':
            return value_of(ids[0])
        if ids[0] % 3 == 0:
            return None
        return {'f': self.stage, 'x': x}


class BigFn(W.MapFn):
    """examples above diskcache's 32 kB threshold are stored as separate files"""

    def __call__(self, x):
        ctx, ids = W._enter(self.stage, x)
        ctx.event('ret', self.stage, ids)
        return {'f': self.stage, 'x': x, 'blob': 'b%d' % ids[0] * 20000}


def value_of(i):
    if NONEVALS[0] == 'str':
        # plain strings with every kind of line ending (a store that writes
        # text files must not translate them)
        return 'example %d\r\nsecond line\rthird\n' % i if i % 3 != 2 else \
            {'f': 'u0', 'x': {'src': i}}
    if NONEVALS[0]:
        return None if i % 3 == 0 else {'f': 'u0', 'x': {'src': i}}
    if BIG[0]:
        return {'f': 'u0', 'x': {'src': i}, 'blob': 'b%d' % i * 20000}
    return {'f': 'u0', 'x': {'src': i}}


def make_upstream(n, kind):
    if kind == 'dict':
        src = lazy_dataset.new({'k%d' % i: {'src': i} for i in range(n)})
    else:
        src = lazy_dataset.new([{'src': i} for i in range(n)])
    if NONEVALS[0]:
        return src.map(NoneFn('u0'))
    return src.map(BigFn('u0') if BIG[0] else W.MapFn('u0'))


def do_access(ds, n, acc):
    """-> list of (index, value) read by this access"""
    kind, i = acc
    if kind == 'index':
        return [(i, ds[i])]
    if kind == 'oob':
        # an index outside [-n, n): refused like the un-cached pipeline refuses it
        for j in (-(n + 1 + i), n + i):
            try:
                v = ds[j]
            except IndexError:
                continue
            return [(n + 1000 + i, ('<returned for index %d of %d examples>' % (j, n), v))]
        return []
    if kind == 'neg':
        return [(i, ds[i - n])]
    if kind == 'npindex':
        import numpy as _np
        return [(i, ds[_np.int64(i)])]
    if kind == 'key':
        return [(i, ds['k%d' % i])]
    if kind == 'iter':
        return list(enumerate(ds))
    if kind == 'slice':
        return list(zip(range(i, n), ds[i:]))
    if kind == 'copy':
        return [(i, ds.copy()[i])]
    if kind == 'iter_k':
        # partial iteration: the consumer breaks after i examples
        out = []
        it = iter(ds)
        for j in range(min(i, n)):
            out.append((j, next(it)))
        W.close_iter(it)
        return out
    raise ValueError(kind)


def gen_access(rng, n, kind):
    k = rng.choice(['index', 'index', 'neg', 'npindex', 'iter', 'slice', 'copy', 'iter_k', 'oob'] +
                   (['key'] if kind == 'dict' else []))
    return [k, rng.randrange(n + 1) if k == 'iter_k' else rng.randrange(n)]


# ------------------------------------------------------------ child writer
def run_child(cache_dir, n, kind, accesses, kill_at):
    """Fork a writer.  Returns (acks, steps_at_ack, exit_status, total_steps).
    acks = list of indices whose access completed before the kill."""
    r, w = os.pipe()
    pid = os.fork()
    if pid == 0:
        status = 0
        try:
            os.close(r)
            gc.disable()
            warnings.simplefilter('always')
            warnings.showwarning = lambda *a, **k: None
            W.set_ctx(W.Ctx())
            steps = [0]
            inside_set = [0]

            set_steps = []

            def local(frame, event, arg):
                if event == 'line':
                    steps[0] += 1
                    if kill_at is None and len(set_steps) < 600 and \
                            frame.f_code.co_name in SET_FUNCS:
                        set_steps.append(steps[0])
                    if kill_at is not None and steps[0] >= kill_at:
                        where = frame.f_code.co_name
                        os.write(w, ('killed %d %s\n' % (steps[0], where)).encode())
                        os._exit(9)
                return local

            def tracer(frame, event, arg):
                if frame.f_code.co_filename in TRACED:
                    return local
                return None
            up = make_upstream(n, kind)
            sys.settrace(tracer)
            ds = ldc.DiskCacheDataset(up, cache_dir, reuse=True, clear=False)
            for j, acc in enumerate(accesses):
                if acc[0] in ('iter', 'slice', 'iter_k'):
                    # the writer consumes an iteration example by example: every
                    # example it has received is acknowledged (it was stored
                    # before it was handed out)
                    if acc[0] == 'iter':
                        stream = enumerate(ds)
                    elif acc[0] == 'slice':
                        stream = zip(range(acc[1], n), ds[acc[1]:])
                    else:
                        stream = zip(range(min(acc[1], n)), ds)
                    for i, _v in stream:
                        os.write(w, ('ack %d %s %d\n' % (j, json.dumps([i]), steps[0])).encode())
                    continue
                got = do_access(ds, n, acc)
                idx = [i for i, _ in got]
                os.write(w, ('ack %d %s %d\n' % (j, json.dumps(idx), steps[0])).encode())
            sys.settrace(None)
            os.write(w, ('setsteps %s\n' % json.dumps(set_steps)).encode())
            os.write(w, ('end %d\n' % steps[0]).encode())
        except BaseException as e:          # noqa
            try:
                os.write(w, ('error %s %s\n' % (type(e).__name__, str(e)[:200].replace('\n', ' '))).encode())
            except Exception:
                pass
            status = 7
        finally:
            os._exit(status)     # no __del__, no atexit, no sqlite close
    os.close(w)
    data = b''
    while True:
        chunk = os.read(r, 65536)
        if not chunk:
            break
        data += chunk
    os.close(r)
    _, st = os.waitpid(pid, 0)
    acks, steps, total, killed_in, err = [], [], None, None, None
    set_steps = []
    for line in data.decode().splitlines():
        p = line.split(' ', 1)
        if p[0] == 'ack':
            j, rest = p[1].split(' ', 1)
            idx, stp = rest.rsplit(' ', 1)
            acks.append(json.loads(idx))
            steps.append(int(stp))
        elif p[0] == 'setsteps':
            set_steps = json.loads(p[1])
        elif p[0] == 'end':
            total = int(p[1])
        elif p[0] == 'killed':
            killed_in = p[1].split(' ')[1]
        elif p[0] == 'error':
            err = p[1]
    return {'acks': acks, 'steps': steps, 'total': total, 'killed_in': killed_in,
            'set_steps': set_steps,
            'error': err, 'exit': os.waitstatus_to_exitcode(st)}


# -------------------------------------------------------------- generation
def gen(rng, tier, index):
    n = rng.randrange(1, 7)
    kind = rng.choice(['list', 'dict'])
    big = rng.random() < 0.2
    nonevals = (not big) and rng.random() < 0.35
    if nonevals and rng.random() < 0.45:
        nonevals = 'str'
    BIG[0] = big
    NONEVALS[0] = nonevals
    cases = []
    # (a) crash-point family
    accesses = [gen_access(rng, n, kind) for _ in range(rng.randrange(1, 6))]
    pre = [gen_access(rng, n, kind) for _ in range(rng.randrange(0, 3))]
    tmp = tempfile.mkdtemp(prefix='c11g_')
    try:
        dry = run_child(tmp + '/cache', n, kind, accesses, None)
    finally:
        shutil.rmtree(tmp, ignore_errors=True)
    total = dry['total'] or 1
    after_ack = sorted({s + 1 for s in dry['steps']} | {s for s in dry['steps']})
    if len(after_ack) > 14:
        after_ack = sorted(rng.sample(after_ack, 14))
    inside_set = dry.get('set_steps') or []
    if len(inside_set) > 8:
        inside_set = rng.sample(inside_set, 8)
    kills = sorted(set(after_ack) | {rng.randrange(1, total + 1) for _ in range(4)} |
                   set(inside_set))
    for k in kills:
        cases.append({'mode': 'crash', 'n': n, 'kind': kind, 'pre': pre,
                      'accesses': accesses, 'kill': k, 'big': big, 'nonevals': nonevals,
                      'parent_open': rng.random() < 0.3})
    # (b) lifecycle histories
    for j in range(3):
        cases.append({'mode': 'life', 'n': n, 'kind': kind, 'big': big, 'nonevals': nonevals,
                      'ops': gen_life_ops(rng, n, kind)})
        if rng.random() < 0.35:
            # directory names that are also glob / regular expression patterns, a
            # relative spelling, a pathlib.Path
            cases[-1]['dirname'] = rng.choice(DIRNAMES)
        if rng.random() < 0.2:
            # a foreign file (also a hidden one) is in the directory before the
            # first open: the directory is not empty
            cases[-1]['plant'] = rng.choice(['.keep', 'notes.txt', '.nfs0001'])
    if rng.random() < 0.5:
        accs = []
        for _ in range(rng.randrange(2, 8)):
            r = rng.random()
            accs.append(['copy_handle'] if r < 0.15 else ['release_oldest'] if r < 0.25
                        else gen_access(rng, n, kind))
        cases.append({'mode': 'default_dir', 'n': n, 'kind': kind, 'big': big,
                      'nonevals': nonevals, 'accesses': accs, 'keep': rng.random() < 0.4})
    BIG[0] = False
    NONEVALS[0] = False
    return cases


DIRNAMES = ['cache[v1]', 'run[0-9]', 'a*b', 'c?che', 'with space', '.hidden', 'sub/dir/cache',
            'cache.d', '{x}', 'pathlib:cache', 'envvar:cache', 'home:cache', 'envvar:cache']


def gen_life_ops(rng, n, kind):
    ops = []
    live = []          # handle names currently open (model of the generator)
    groups = {}        # handle -> (group id, clear)
    gid = 0
    hcount = 0
    for _ in range(rng.randrange(6, 19)):
        r = rng.random()
        if not live or r < 0.15:
            any_clear = any(groups[h][1] for h in live)
            if any_clear:
                continue
            clear = rng.random() < 0.5 and not live
            reuse = rng.random() < 0.7
            h = 'h%d' % hcount
            hcount += 1
            ops.append(['open', h, reuse, clear])
            # the generator does not know whether the open will be refused;
            # the executor skips operations on handles that failed to open
            live.append(h)
            groups[h] = (gid, clear)
            gid += 1
        elif r < 0.6:
            ops.append(['access', rng.choice(live)] + gen_access(rng, n, kind))
        elif r < 0.7:
            src = rng.choice(live)
            h = 'h%d' % hcount
            hcount += 1
            ops.append(['copy', src, h])
            live.append(h)
            groups[h] = groups[src]
        elif r < 0.85:
            h = rng.choice(live)
            ops.append(['release', h])
            live.remove(h)
        elif r < 0.93:
            ops.append(['disk', rng.choice(['low', 'full', 'ok'])])
        elif r < 0.965:
            ops.append(['store_error', rng.choice(['enospc', 'sqlite']), rng.randrange(0, 3)])
        else:
            ops.append(['store_busy', rng.randrange(0, 3), rng.randrange(1, 4)])
    for h in list(live):
        ops.append(['release', h])
    return ops


# ---------------------------------------------------------------- executor
class Model:
    def __init__(self):
        self.persisted = {}
        self.maybe = set()      # computed during an access that raised: stored or not
        self.violations = []
        self.probes = {}
        self.fired = collections.Counter()

    def bad(self, cls, sig, msg):
        if not self.violations:
            self.violations.append(hist.viol(cls, sig, msg))


def _calls(ctx, pos):
    c = collections.Counter()
    for e in ctx.log[pos:]:
        if e[2] == 'call' and e[3] == 'u0':
            c[e[4][0]] += 1
    return c


class _Exc:
    def __init__(self, e):
        self.type = type(e)
        self.name = type(e).__name__
        self.text = repr(e)[:200]

    def isa(self, *types):
        return issubclass(self.type, types)


def checked_access(m, ctx, ds, n, acc, via, disk_full=False, inflight=()):
    """Perform one access through ds and judge it against the model.
    Returns the exception if the access raised."""
    pos = len(ctx.log)
    before = dict(m.persisted)
    try:
        got = do_access(ds, n, acc)
    except Exception as e:
        calls = _calls(ctx, pos)
        m.maybe.update(i for i in calls if i not in m.persisted)
        # hand back a description, not the exception object: its traceback
        # would keep the dataset (and so the cache directory) alive
        return _Exc(e), calls
    calls = _calls(ctx, pos)
    inflight = set(inflight) | m.maybe
    for i, v in got:
        nv = W.norm(v)
        if nv != value_of(i):
            m.bad('wrong_value_served', 'wrong_value_served:' + via,
                  'index %d read via %s/%s returned %s, the pipeline value is %s (persisted before: %s)'
                  % (i, via, acc[0], W.short(nv, 80), value_of(i), sorted(before)))
            return None, calls
    seen = set()
    for i, v in got:
        if i in seen:
            continue
        seen.add(i)
        if i in before:
            if calls.get(i, 0) != 0:
                m.bad('recomputed_persisted_example', 'recomputed_persisted_example:' + via,
                      'index %d was stored in the cache directory before (persisted: %s) but the '
                      'upstream pipeline ran again on access via %s/%s'
                      % (i, sorted(before), via, acc[0]))
        else:
            if i in inflight:
                if calls.get(i, 0) > 1:
                    m.bad('computed_twice', 'computed_twice:' + via,
                          'index %d computed %d times in one access' % (i, calls[i]))
            elif calls.get(i, 0) != 1:
                m.bad('wrong_number_of_computations', 'wrong_number_of_computations:' + via,
                      'index %d is not in the cache directory; access via %s/%s triggered %d '
                      'computations' % (i, via, acc[0], calls.get(i, 0)))
            if disk_full and calls.get(i, 0):
                m.maybe.add(i)
            else:
                m.persisted[i] = value_of(i)
                m.maybe.discard(i)
    return None, calls


def run_crash(case):
    n, kind = case['n'], case['kind']
    m = Model()
    tmp = tempfile.mkdtemp(prefix='c11_')
    cache_dir = tmp + '/cache'
    ctx = W.set_ctx(W.Ctx())
    try:
        up = make_upstream(n, kind)
        parent = None
        if case['pre'] or case['parent_open']:
            parent = ldc.DiskCacheDataset(up, cache_dir, reuse=True, clear=False)
            for acc in case['pre']:
                checked_access(m, ctx, parent, n, acc, 'parent')
            if not case['parent_open']:
                parent = None
                gc.collect()
        rep = run_child(cache_dir, n, kind, case['accesses'], case['kill'])
        if rep['error']:
            m.bad('writer_failed', 'writer_failed:' + rep['error'].split(' ')[0],
                  'the child writer raised %s' % rep['error'])
        killed = rep['exit'] == 9
        if killed:
            m.fired['writer_killed'] += 1
            if rep['killed_in'] in SET_FUNCS:
                m.probes['killed_inside_cache_set'] = 1
            if case['kill'] in {s + 1 for s in rep['steps']} | set(rep['steps']):
                m.probes['killed_right_after_store'] = 1
        acked = set()
        for idx in rep['acks']:
            acked.update(idx)
        for i in acked:
            m.persisted[i] = value_of(i)
        inflight = set(range(n)) - set(m.persisted) if killed else set()
        if inflight:
            m.probes['inflight_index_after_kill'] = 1
        # reopen (or keep using the parent's handle) and read everything
        ds = parent if parent is not None else \
            ldc.DiskCacheDataset(up, cache_dir, reuse=True, clear=False)
        if acked:
            m.probes['acked_index_served_after_kill'] = 1
        for i in range(n):
            e, _ = checked_access(m, ctx, ds, n, ['index', i], 'reopen_after_kill',
                                  inflight=inflight)
            if e is not None:
                m.bad('reopen_failed', 'reopen_failed:' + e.name,
                      'reading index %d after the writer was killed at step %s raised %s'
                      % (i, case['kill'], e.text))
        # a second reopen: everything must now be served without computing
        ds = None
        parent = None
        gc.collect()
        ds = ldc.DiskCacheDataset(up, cache_dir, reuse=True, clear=True)
        checked_access(m, ctx, ds, n, ['iter', 0], 'second_reopen')
        ds = None
        gc.collect()
        if os.path.exists(cache_dir):
            m.bad('directory_not_cleared', 'directory_not_cleared:after_kill',
                  'clear=True but the directory still exists after the last release')
    finally:
        W.set_ctx(None)
        gc.collect()
        shutil.rmtree(tmp, ignore_errors=True)
    return m, {'acks': rep['acks'], 'killed_in': rep['killed_in'], 'exit': rep['exit']}


def run_life(case):
    n, kind = case['n'], case['kind']
    m = Model()
    tmp = tempfile.mkdtemp(prefix='c11_')
    dirname = case.get('dirname') or 'cache'
    as_path = dirname.startswith('pathlib:')
    spelled = dirname.split(':', 1)[0] if ':' in dirname else None
    dirname = dirname.split(':', 1)[-1]
    cache_dir = tmp + '/' + dirname
    # the directory as the caller spells it: with an environment variable or '~'
    # (both are expanded by the store underneath)
    saved_env = {k: os.environ.get(k) for k in ('C11_CACHE_ROOT', 'HOME')}
    given_dir = cache_dir
    if spelled == 'envvar':
        os.environ['C11_CACHE_ROOT'] = tmp
        given_dir = '$C11_CACHE_ROOT/' + dirname
        m.probes['directory_spelled_with_variable_or_tilde'] = 1
    elif spelled == 'home':
        os.environ['HOME'] = tmp
        given_dir = '~/' + dirname
        m.probes['directory_spelled_with_variable_or_tilde'] = 1
    if '/' in dirname:
        os.makedirs(os.path.dirname(cache_dir))
    if case.get('plant'):
        os.makedirs(cache_dir)
        with open(os.path.join(cache_dir, case['plant']), 'w') as f_:
            f_.write('foreign')
    ctx = W.set_ctx(W.Ctx())
    handles = {}       # name -> dataset
    group = {}         # name -> group id
    gclear = {}        # group id -> clear flag
    trace = []
    saved_du = shutil.disk_usage
    shutil.disk_usage = _fake_disk_usage
    diskcache.Cache.__setitem__ = _faulty_setitem
    diskcache.Cache._sql = property(_busy_sql)
    Disk.free = 100 * GiB
    StoreFault.countdown = None
    StoreFault.fired = 0
    BusyFault.countdown = None
    BusyFault.left = 0
    BusyFault.fired = 0
    disk = 'ok'
    try:
        up = make_upstream(n, kind)
        for op in case['ops']:
            if m.violations:
                break
            if op[0] == 'open':
                _, h, reuse, clear = op
                nonempty = os.path.isdir(cache_dir) and len(os.listdir(cache_dir)) > 0
                listing = sorted(os.listdir(cache_dir)) if os.path.isdir(cache_dir) else None
                try:
                    ds = ldc.DiskCacheDataset(up, pathlib.Path(cache_dir) if as_path else given_dir,
                                              reuse=reuse, clear=clear)
                except RuntimeError as e:
                    if nonempty and not reuse:
                        m.probes['reuse_false_refused'] = 1
                        m.fired['refused_open'] += 1
                        now = sorted(os.listdir(cache_dir)) if os.path.isdir(cache_dir) else None
                        if now != listing:
                            m.bad('refusal_changed_directory', 'refusal_changed_directory',
                                  'a refused open changed the directory: %s -> %s' % (listing, now))
                    else:
                        m.bad('open_refused_wrongly', 'open_refused_wrongly',
                              'open(reuse=%s) on %s directory raised %r'
                              % (reuse, 'a non-empty' if nonempty else 'an empty / missing', e))
                    continue
                if nonempty and not reuse:
                    m.bad('reuse_false_accepted', 'reuse_false_accepted',
                          'open(reuse=False) on a non-empty directory %s was accepted' % listing)
                handles[h] = ds
                ds = None
                if case.get('dirname'):
                    m.probes['directory_name_with_pattern_characters'] = 1
                if case.get('plant') and nonempty:
                    m.probes['foreign_file_in_directory_at_open'] = 1
                g = len(gclear)
                group[h] = g
                gclear[g] = clear
                m.fired['open'] += 1
                if nonempty:
                    m.fired['reopen_existing_directory'] += 1
            elif op[0] == 'copy':
                _, srcn, h = op
                if srcn not in handles:
                    continue
                handles[h] = handles[srcn].copy()
                group[h] = group[srcn]
            elif op[0] == 'access':
                _, h, k, i = op
                if h not in handles:
                    continue
                fault_before = StoreFault.fired
                busy_before = BusyFault.fired
                e, calls = checked_access(m, ctx, handles[h], n, [k, i], 'handle')
                if BusyFault.fired > busy_before and e is None:
                    m.probes['write_lock_busy_store_retried'] = 1
                trace.append([h, k, i, e.name if e else None])
                if e is not None:
                    licensed = False
                    if disk == 'full' and e.isa(RuntimeError) and calls:
                        licensed = True
                        m.probes['disk_full_raised_on_miss'] = 1
                    if StoreFault.fired > fault_before and \
                            e.isa(OSError, sqlite3.OperationalError):
                        licensed = True
                        m.probes['store_error_propagated'] = 1
                    if BusyFault.fired > busy_before and \
                            e.isa(diskcache.Timeout, sqlite3.OperationalError):
                        licensed = True     # loud: the caller knows nothing was stored
                    if not licensed:
                        m.bad('access_raised', 'access_raised:' + e.name,
                              'access %s[%s %s] raised %s without a fault that licenses it '
                              '(disk=%s)' % (h, k, i, e.text, disk))
                elif disk == 'full' and not calls:
                    m.probes['disk_full_hit_still_served'] = 1
            elif op[0] == 'release':
                _, h = op
                if h not in handles:
                    continue
                g = group[h]
                others = [x for x in handles if x != h and group[x] == g]
                del handles[h]
                gc.collect()
                if not others:
                    exists = os.path.exists(cache_dir)
                    other_groups = [x for x in handles]
                    if gclear[g]:
                        if exists:
                            m.bad('directory_not_cleared', 'directory_not_cleared',
                                  'clear=True: the directory still exists after the last '
                                  'dataset sharing the cache was released')
                        else:
                            m.probes['directory_removed_on_last_release'] = 1
                            m.persisted = {}
                            m.maybe = set()
                    else:
                        if not exists and os.path.isdir(tmp):
                            m.bad('directory_removed', 'directory_removed',
                                  'clear=False: the directory vanished when the cache was released')
                        else:
                            m.probes['directory_kept_on_release'] = 1
                    m.fired['last_release'] += 1
                else:
                    if not os.path.exists(cache_dir):
                        m.bad('directory_removed_early', 'directory_removed_early',
                              'the directory vanished while copies %s still share the cache' % others)
                    else:
                        m.probes['copy_outlived_original'] = 1
            elif op[0] == 'disk':
                disk = op[1]
                Disk.free = {'ok': 100 * GiB, 'low': 3 * GiB, 'full': GiB // 2}[disk]
                m.fired['disk_' + disk] += 1
            elif op[0] == 'store_error':
                StoreFault.kind, StoreFault.countdown = op[1], op[2]
                m.fired['store_error_armed'] += 1
            elif op[0] == 'store_busy':
                BusyFault.countdown, BusyFault.k, BusyFault.left = op[1], op[2], 0
                m.fired['store_busy_armed'] += 1
        m.fired['store_error_fired'] += StoreFault.fired
        m.fired['write_lock_busy_fired'] += BusyFault.fired
    finally:
        shutil.disk_usage = saved_du
        diskcache.Cache.__setitem__ = _orig_setitem
        diskcache.Cache._sql = _orig_sql
        StoreFault.countdown = None
        BusyFault.countdown = None
        for k_, v_ in saved_env.items():
            if v_ is None:
                os.environ.pop(k_, None)
            else:
                os.environ[k_] = v_
        handles.clear()
        W.set_ctx(None)
        gc.collect()
        shutil.rmtree(tmp, ignore_errors=True)
    return m, trace


def run_default_dir(case):
    """`ds.diskcache()` with every argument left at its default: a directory of
    the library's own choosing, removed when the last dataset sharing the cache
    is released."""
    n, kind = case['n'], case['kind']
    m = Model()
    ctx = W.set_ctx(W.Ctx())
    trace = []
    directory = None
    try:
        up = make_upstream(n, kind)
        keep = bool(case.get('keep'))
        # every argument at its default, or only `clear` given
        ds = up.diskcache(clear=False) if keep else up.diskcache()
        directory = str(ds._cache.cache.directory)     # observation only
        if not os.path.isdir(directory):
            m.bad('directory_missing', 'directory_missing:default_dir',
                  'diskcache() reports the directory %s, which does not exist' % directory)
        handles = [ds]
        ds = None
        for acc in case['accesses']:
            if m.violations:
                break
            if acc[0] == 'copy_handle':
                handles.append(handles[-1].copy())
                continue
            if acc[0] == 'release_oldest' and len(handles) > 1:
                del handles[0]
                gc.collect()
                if not os.path.isdir(directory):
                    m.bad('directory_removed_early', 'directory_removed_early:default_dir',
                          'the directory vanished while a copy still shares the cache')
                continue
            if acc[0] in ('copy_handle', 'release_oldest'):
                continue
            e, calls = checked_access(m, ctx, handles[-1], n, acc, 'default_dir')
            trace.append([acc, e.name if e else None])
            if e is not None:
                m.bad('access_raised', 'access_raised:' + e.name,
                      'access %s raised %s without any fault' % (acc, e.text))
        del handles[:]
        gc.collect()
        if not m.violations and keep and not os.path.exists(directory):
            m.bad('directory_removed', 'directory_removed:default_dir',
                  'diskcache(clear=False): the directory the library chose (%s) vanished when '
                  'the cache was released' % directory)
        if not m.violations and not keep and os.path.exists(directory):
            m.bad('directory_not_cleared', 'directory_not_cleared:default_dir',
                  'diskcache() (clear=True by default): %s still exists after the last dataset '
                  'sharing the cache was released' % directory)
        m.probes['directory_chosen_by_the_library'] = 1
        m.fired['default_directory'] += 1
    finally:
        W.set_ctx(None)
        gc.collect()
        if directory and os.path.exists(directory):
            shutil.rmtree(directory, ignore_errors=True)
    return m, trace


def run(case):
    BIG[0] = bool(case.get('big'))
    NONEVALS[0] = case.get('nonevals') or False
    try:
        return _run(case)
    finally:
        BIG[0] = False
        NONEVALS[0] = False


def _run(case):
    with warnings.catch_warnings(record=True):
        warnings.simplefilter('always')    # recorded, not printed; never 'ignore': dependencies inspect warnings
        if case['mode'] == 'crash':
            m, extra = run_crash(case)
            nontrivial = bool(m.fired.get('writer_killed')) or bool(case['pre'])
        elif case['mode'] == 'default_dir':
            m, extra = run_default_dir(case)
            nontrivial = True
        else:
            m, extra = run_life(case)
            nontrivial = bool(m.fired)
    m.fired['mode_' + case['mode']] += 1
    if case.get('nonevals') == 'str':
        m.fired['plain_string_examples_with_line_endings'] += 1
    elif case.get('nonevals'):
        m.fired['none_valued_examples'] += 1
    if case.get('big'):
        m.fired['file_backed_examples'] += 1
        m.probes['examples_stored_as_separate_files'] = 1
    return hist.outcome(case, nontrivial=nontrivial, key=hist.hkey(case),
                        violations=m.violations, fired=dict(m.fired), probes=m.probes,
                        stats={}, sample={'case': case, 'observed': extra},
                        digest_extra=[extra, sorted(m.persisted)])


def shrink(case):
    if case['mode'] == 'life':
        yield from hist.shrink_ops(case, 'ops')
        return
    if case['mode'] == 'default_dir':
        yield from hist.shrink_ops(case, 'accesses')
        return
    for key in ('pre', 'accesses'):
        for i in range(len(case[key])):
            if key == 'accesses' and len(case[key]) == 1:
                continue
            c = hist.clone(case)
            del c[key][i]
            yield c
    if case['parent_open']:
        c = hist.clone(case)
        c['parent_open'] = False
        yield c
    for k in (case['kill'] // 2, case['kill'] - 1):
        if 0 < k < case['kill']:
            c = hist.clone(case)
            c['kill'] = k
            yield c
