"""C09 - examples handed out are isolated from the stored data."""
import gc
import copy
import pathlib
import shutil
import tempfile
import warnings

import numpy as np

import lazy_dataset
from lazy_dataset import core as ldc
from lazy_dataset import parallel_utils as ldp

from .. import hist, sim as S
from .. import workload as W

PROP = 'C09'
LEVEL = 'exploration'
RULE = ('family = one store (new / from_dict / from_list with immutable_warranty pickle, '
        'copy, wu; ds.cache(); ds.cache(lazy=False); ds.diskcache()) over 1-5 nested '
        'examples (dicts, lists, numpy arrays) and 3 histories of 5-16 operations by '
        '2-3 clients: read by ds[i], ds[-i], ds[key], iteration, items(), slice, '
        'through copy(), delivered by a prefetch worker thread (thread simulator); '
        'hold; mutate a held example deeply (set / delete / append / clear / in-place '
        'array write); mutate the original container after construction (pickle and wu '
        'only, the property exempts copy); re-read; stores whose examples are tuples with '
        'mutable content; in 15% of the families two client threads read and mutate '
        'concurrently under the thread scheduler; in 10% every example is damaged while the '
        'iteration that delivers it goes on (also over selections with runs of equal '
        'indices, and with an original container that lists one object twice or shares a '
        'sub-object between examples). Oracle: after every step every '
        'read equals the pristine snapshot taken at construction. Non-trivial = a '
        'mutation happened before a later read; distinct = distinct (store, payload, '
        'history).')
PROBES = ['every_example_damaged_while_the_iteration_goes_on', 'selection_with_repeated_neighbouring_indices', 'iterator_kept_open', 'slice_dataset_kept', 'two_client_threads', 'mutated_then_reread_same_path', 'mutated_then_reread_other_path',
          'original_container_mutated', 'read_by_prefetch_worker',
          'first_access_object_mutated', 'cached_access_object_mutated',
          'repetition_kept_and_read_again', 'copy_kept_and_read_again', 'endless_repetition_second_round', 'constructed_through_another_entry_point', 'original_container_grew_or_shrank', 'empty_container_refused', 'dataset_from_json_file']
BUDGET = {
    'quick': {'families': 7000, 'wall_cap': 420, 'shrink_s': 12},
    'thorough': {'families': 70000, 'wall_cap': 5400, 'shrink_s': 30},
}
COMPONENTS = {
    'real': ['lazy_dataset.core: new / from_dict / from_list / NumpySerializedList / _CacheWrapper / '
             'CacheDataset / DiskCacheDataset (real diskcache + sqlite on a per-run temp dir)',
             'lazy_dataset.parallel_utils under the thread simulator for reads through prefetch'],
    'replaced_by_simulator': ['order of client reads and mutations (seeded op list)',
                              'thread schedule of prefetch reads'],
    'stub': [],
}
ASSUMPTIONS = ['isolation is judged by deep equality with a snapshot normalised to plain lists / dicts',
               'the disk cache lives on a real temporary directory removed after each run']

STORES = ['new_pickle', 'new_pickle', 'new_copy', 'new_wu', 'cache', 'eager_cache', 'diskcache',
          'cache_tuple', 'new_tuple', 'new_json', 'eager_cache_raw', 'cache_over_copy', 'cache_nomem']
PATHS = ['index', 'neg', 'key', 'iter', 'items', 'slice', 'copy', 'prefetch1', 'prefetchw', 'base']
MUTS = ['set', 'del', 'append', 'clear', 'array', 'nested']


def payload(i, shape):
    if shape == 'tuple':
        # shallowly immutable container with mutable content
        return ({'id': i, 'a': [i, {'b': [i]}]}, [i, i + 1], 'txt%d' % i)
    if shape == 'toparr':
        # the example itself is an array (weakly referencable, unlike dict / list)
        return np.arange(3) + i
    if shape == 'objarr':
        # a ragged (object dtype) array: its elements are mutable Python lists
        arr = np.empty(2, dtype=object)
        arr[0], arr[1] = [i], [i, i + 1]
        return {'id': i, 'arr': arr}
    ex = {'id': i, 's': 'txt%d' % i}
    if shape in ('nested', 'all'):
        ex['a'] = [i, {'b': [i, i + 1]}, [1, 2]]
    if shape in ('array', 'all'):
        ex['arr'] = np.arange(3) + i
    if shape == 'flatlist':
        return [i, [i, i], {'k': i}]
    return ex


def gen(rng, tier, index):
    store = rng.choice(STORES)
    n = rng.randrange(1, 6)
    kind = 'list' if store == 'new_wu' else rng.choice(['list', 'dict'])
    shape = rng.choice(['nested', 'array', 'all', 'flatlist', 'toparr', 'objarr'])
    if store.endswith('_tuple'):
        shape = 'tuple'
    if store == 'new_json':
        # new(<path of a JSON file>): the file's content, stored like a list / dict
        shape = rng.choice(['nested', 'flatlist'])
    if store in ('new_pickle', 'new_wu') and rng.random() < 0.06:
        # an empty container that grows after construction (a loud refusal of
        # the empty container is fine; serving the later additions is not)
        kind = 'list' if store == 'new_wu' else kind
        return [{'store': store, 'n': 0, 'kind': kind, 'shape': shape,
                 'ops': [['mutate_original', 'grow', 0], ['read', 'iter', 0, 0],
                         ['mutate_original', 'grow', 0], ['read', 'iter', 0, 0]]}]
    if rng.random() < 0.15 and store in ('cache', 'diskcache', 'new_pickle', 'new_copy',
                                         'cache_tuple', 'new_wu', 'cache_nomem'):
        # two client threads read and mutate concurrently (thread simulator)
        cases = []
        for j in range(3):
            plans = [[rng.randrange(n) for _ in range(rng.randrange(2, 6))] for _t in range(2)]
            cases.append({'mode': 'concurrent', 'store': store, 'n': n, 'kind': kind,
                          'shape': shape, 'plans': plans, 'muts': [rng.choice(MUTS) for _ in range(4)],
                          'sched': {'policy': rng.choice(['random', 'sticky']), 'params': {'p': 0.5},
                                    'seed': rng.randrange(1 << 30)},
                          'ops': []})
        return cases
    cases = []
    if n >= 1 and rng.random() < 0.1:
        # every example is damaged while the iteration that delivers it goes on; the
        # caller's container may list one object twice / share a sub-object between
        # examples; selections with runs of equal indices
        alias = rng.choice([None, 'twice', 'shared']) if store != 'new_json' else None
        for j in range(3):
            ops = []
            for _ in range(rng.randrange(1, 4)):
                path_ = rng.choice(['iter', 'dupslice', 'copy_iter'] +
                                   (['items', 'dupslice_items'] if kind == 'dict' else []))
                idxs = []
                for _r in range(rng.randrange(1, 4)):
                    idxs += [rng.randrange(n)] * rng.randrange(1, 4)
                ops.append(['sweep', path_, idxs, rng.choice(MUTS)])
                if rng.random() < 0.4:
                    ops.append(['read', rng.choice(['index', 'iter']), rng.randrange(n), 0])
            c = {'store': store, 'n': n, 'kind': kind, 'shape': shape, 'ops': ops}
            if alias:
                c['alias'] = alias
            cases.append(c)
        return cases
    if rng.random() < 0.12:
        # derived datasets that are kept: read, mutate what was handed out, read
        # again through the very same derived object
        for j in range(3):
            ops = []
            opener = rng.choice([['kc_open', rng.randrange(1, 3)], ['ks_open', 0],
                                 ['kc_open', 1, rng.choice(['tile', 'concat'])]])
            ops.append(opener)
            for _ in range(rng.randrange(2, 5)):
                i = rng.randrange(n)
                if opener[0] == 'kc_open':
                    ops.append(['kc_read', i, rng.choice(['index', 'iter', 'slice'])])
                else:
                    ops.append(['ks_read', i])
                ops.append(['mutate', rng.choice(MUTS), -1])
                if rng.random() < 0.5:
                    ops.append(['read', rng.choice(['index', 'iter', 'copy']), i, 0])
            cases.append({'store': store, 'n': n, 'kind': kind, 'shape': shape, 'ops': ops})
        return cases
    for j in range(3):
        ops = []
        for _ in range(rng.randrange(5, 17)):
            r = rng.random()
            if r < 0.12:
                # an iterator kept open and advanced between other operations
                ops.append(rng.choice([['it_open', rng.choice(['iter', 'items', 'cycle']) if kind == 'dict'
                                        else rng.choice(['iter', 'cycle'])],
                                       ['it_next'], ['it_next'], ['it_next']]))
            elif r < 0.2 and rng.random() < 0.5:
                # a copy (or a copy of a copy) that is kept and read repeatedly
                ops.append(rng.choice([['kc_open', rng.randrange(1, 3)],
                                       ['kc_read', rng.randrange(n), rng.choice(['index', 'iter', 'slice'])],
                                       ['kc_read', rng.randrange(n), rng.choice(['index', 'iter', 'slice'])]]))
            elif r < 0.2:
                # a slice dataset that is kept and read repeatedly
                ops.append(rng.choice([['ks_open', rng.randrange(n)], ['ks_read', rng.randrange(n)],
                                       ['ks_read', rng.randrange(n)]]))
            elif r < 0.5:
                p = rng.choice(PATHS)
                if p in ('key', 'items') and kind != 'dict':
                    p = 'index'
                if p == 'neg' and store == 'new_wu':
                    # NumpySerializedList does not support negative indices
                    # (ds[-len] raises IndexError): an indexing matter (C02),
                    # not an isolation one
                    p = 'index'
                ops.append(['read', p, rng.randrange(n), rng.randrange(1 << 20)])
            elif r < 0.85:
                ops.append(['mutate', rng.choice(MUTS), rng.randrange(0, 4)])
            elif store in ('new_pickle', 'new_wu', 'eager_cache_raw'):
                ops.append(['mutate_original', rng.choice(MUTS + ['replace', 'grow', 'shrink']),
                            rng.randrange(n)])
            elif store == 'diskcache':
                # the next store(s) of the disk cache fail (ENOSPC / sqlite error)
                ops.append(['store_error', rng.choice(['enospc', 'sqlite']),
                            rng.randrange(0, 2)])
            else:
                ops.append(['mutate', rng.choice(MUTS), rng.randrange(0, 4)])
        cases.append({'store': store, 'n': n, 'kind': kind, 'shape': shape, 'ops': ops})
        if store in ('new_pickle', 'new_copy', 'new_wu') and rng.random() < 0.4:
            cases[-1]['entry'] = rng.choice(['direct', 'tuple', 'from_dataset'])
    return cases


def mutate(v, how):
    """deep in-place damage; returns True if something changed"""
    if isinstance(v, tuple) and len(v) == 2 and isinstance(v[0], str):
        v = v[1]
    if isinstance(v, tuple):
        done = False
        for part in v:
            if isinstance(part, (dict, list)):
                done = mutate(part, how) or done
        return done
    try:
        if isinstance(v, np.ndarray):
            v[0] = -77
            return True
        if isinstance(v, dict) and isinstance(v.get('arr'), np.ndarray) and \
                v['arr'].dtype == object and how in ('array', 'append', 'nested'):
            v['arr'][0].append('MUT')       # in place, inside the object array
            return True
        if isinstance(v, dict):
            if how == 'set':
                v['id'] = 'MUT'
                v['new'] = 1
            elif how == 'del':
                v.pop('s', None)
                v.pop('id', None)
            elif how == 'append':
                (v.get('a') if isinstance(v.get('a'), list) else v.setdefault('a', [])).append('MUT')
            elif how == 'clear':
                v.clear()
            elif how == 'array':
                if isinstance(v.get('arr'), np.ndarray):
                    v['arr'][0] = -77
                else:
                    v['id'] = -77
            elif how == 'nested':
                a = v.get('a')
                if isinstance(a, list) and len(a) > 1 and isinstance(a[1], dict):
                    a[1]['b'].append('MUT')
                    a[1]['z'] = 1
                else:
                    v['s'] = 'MUT'
        elif isinstance(v, list):
            if how in ('set', 'array'):
                v[0] = 'MUT'
            elif how == 'del':
                del v[0]
            elif how == 'append':
                v.append('MUT')
            elif how == 'clear':
                v.clear()
            else:
                if len(v) > 1 and isinstance(v[1], list):
                    v[1].append('MUT')
                else:
                    v.append('MUT')
        return True
    except Exception:
        return False


def run(case):
    n, kind = case['n'], case['kind']
    exs = [payload(i, case['shape']) for i in range(n)]
    if case.get('alias') == 'twice' and n >= 2:
        exs[-1] = exs[0]           # the caller lists one example object twice
    elif case.get('alias') == 'shared':
        common = ['c', [1]]        # one sub-object shared by all examples of the caller
        for e in exs:
            if isinstance(e, dict):
                e['shared'] = common
            elif isinstance(e, list):
                e.append(common)
    pristine = [W.norm(copy.deepcopy(e)) for e in exs]
    orig = {'k%d' % i: e for i, e in enumerate(exs)} if kind == 'dict' else list(exs)
    violations, probes, fired = [], {}, {}
    tmp = None
    ds = None
    base = None
    held = []          # (object, index, path, was_first_access)
    mutated_idx = {}   # index -> set(paths) mutated so far
    accessed = set()
    with warnings.catch_warnings(record=True):
        warnings.simplefilter('always')    # recorded, not printed; never 'ignore': dependencies inspect warnings
        try:
            store = case['store']
            S.begin_building()
            if store == 'new_tuple':
                ds = lazy_dataset.new(orig)
            elif store == 'new_json':
                import json as _json
                tmp = tempfile.mkdtemp(prefix='c09_')
                with open(tmp + '/examples.json', 'w') as fd:
                    _json.dump(orig, fd)
                ds = lazy_dataset.new(tmp + '/examples.json' if n % 2 else
                                      pathlib.Path(tmp + '/examples.json'))
                probes['dataset_from_json_file'] = 1
            elif store.startswith('new_') and n == 0:
                try:
                    ds = lazy_dataset.new(orig, immutable_warranty=store[4:])
                except Exception:
                    probes['empty_container_refused'] = 1
                    return hist.outcome(case, nontrivial=True, key=hist.hkey(case),
                                        violations=[], fired={'store_' + store: 1}, probes=probes,
                                        stats={'ops': 0}, sample={'case': case}, digest_extra=None)
            elif store.startswith('new_'):
                entry = case.get('entry', 'new')
                if entry == 'direct':
                    # the constructors new() dispatches to, called directly
                    ds = (lazy_dataset.from_dict if kind == 'dict' else lazy_dataset.from_list)(
                        orig, immutable_warranty=store[4:])
                elif entry == 'tuple' and kind != 'dict':
                    ds = lazy_dataset.new(tuple(orig), immutable_warranty=store[4:])
                elif entry == 'from_dataset':
                    # a dataset materialised from another dataset
                    ds = lazy_dataset.new(lazy_dataset.new(orig), immutable_warranty=store[4:])
                else:
                    ds = lazy_dataset.new(orig, immutable_warranty=store[4:])
                if entry != 'new':
                    probes['constructed_through_another_entry_point'] = 1
            elif store == 'eager_cache_raw':
                # an eager memory cache taken directly from a raw container dataset
                # (live objects of the caller, e.g. what from_file(..., None) returns)
                raw = ldc.DictDataset(orig) if kind == 'dict' else ldc.ListDataset(orig)
                ds = raw.cache(lazy=False)
                raw = None
            elif store == 'cache_over_copy':
                # a memory cache on top of the 'copy' warranty; the base dataset stays in use
                base = lazy_dataset.new(orig, immutable_warranty='copy')
                ds = base.cache()
            else:
                base = lazy_dataset.new(orig)
                if store in ('cache', 'cache_tuple'):
                    ds = base.cache()
                elif store == 'cache_nomem':
                    # a memory cache that is never allowed to keep anything
                    ds = base.cache(keep_mem_free='100%')
                elif store == 'eager_cache':
                    ds = base.cache(lazy=False)
                else:
                    tmp = tempfile.mkdtemp(prefix='c09_')
                    ds = base.diskcache(cache_dir=tmp + '/cache', reuse=False, clear=True)
            S.end_building()

            def check(i, v, path):
                nv = W.norm(v[1] if path == 'items' else v)
                if path == 'items' and v[0] != 'k%d' % i:
                    violations.append(hist.viol('wrong_key', 'wrong_key:' + store,
                                                'items() paired index %d with %r' % (i, v[0])))
                if nv != pristine[i] and not violations:
                    prev = sorted(mutated_idx.get(i, ()))
                    violations.append(hist.viol(
                        'stored_data_changed', 'stored_data_changed:%s:%s' % (store, path),
                        'read of example %d via %s returned %s, pristine value is %s; '
                        'examples handed out earlier for this index were mutated via %s'
                        % (i, path, W.short(nv, 100), W.short(pristine[i], 100), prev)))
                if mutated_idx.get(i):
                    if path in mutated_idx[i]:
                        probes['mutated_then_reread_same_path'] = 1
                    if mutated_idx[i] - {path}:
                        probes['mutated_then_reread_other_path'] = 1
                first = i not in accessed
                accessed.add(i)
                held.append((v, i, path, first))
                del held[:-4]

            if case.get('mode') == 'concurrent':
                _run_concurrent(case, ds, pristine, violations, probes, fired)
            from . import c11 as _c11
            import diskcache as _dc
            import sqlite3 as _sq
            _c11.StoreFault.countdown = None
            if case['store'] == 'diskcache':
                _dc.Cache.__setitem__ = _c11._faulty_setitem
            held_it = None      # [iterator, next index, path]
            kept = None         # [slice dataset, start]
            kept_copy = None    # a copy() of the dataset, kept
            for op in case['ops']:
                if violations:
                    break
                if op[0] == 'it_open':
                    if op[1] == 'cycle':
                        # an endless repetition: later rounds meet examples that
                        # were handed out (and mutated) in earlier rounds
                        held_it = [iter(ds.cycle()), 0, 'cycle']
                    else:
                        held_it = [iter(ds.items() if op[1] == 'items' else ds), 0, op[1]]
                    probes['iterator_kept_open'] = 1
                    continue
                if op[0] == 'it_next' and held_it is not None and held_it[2] == 'cycle':
                    for _rep in range(max(1, n - 1)):
                        if held_it[1] >= 3 * n or violations:
                            break
                        try:
                            v = next(held_it[0])
                        except Exception:
                            if case['store'] == 'diskcache':
                                held_it = None
                                break
                            raise
                        check(held_it[1] % n, v, 'cycle')
                        held_it[1] += 1
                        if held_it[1] > n:
                            probes['endless_repetition_second_round'] = 1
                    continue
                if op[0] == 'it_next':
                    if held_it is not None and held_it[1] < n:
                        try:
                            v = next(held_it[0])
                        except StopIteration:
                            held_it = None
                            continue
                        except Exception:
                            if case['store'] == 'diskcache':
                                held_it = None      # a licensed store fault ended it
                                continue
                            raise
                        check(held_it[1], v, held_it[2])
                        held_it[1] += 1
                    continue
                if op[0] == 'sweep':
                    # iterate and damage every example the moment it is handed out: the
                    # examples that follow in the same iteration must be unaffected
                    _, path_, idxs_, how_ = op
                    if path_ in ('dupslice', 'dupslice_items'):
                        view = ds[list(idxs_)] if n % 2 else ds[np.array(idxs_)]
                        expect = list(idxs_)
                    else:
                        view = ds.copy() if path_ == 'copy_iter' else ds
                        expect = list(range(n))
                    if path_.endswith('items'):
                        view = view.items()
                    try:
                        got_n = 0
                        for j, v in zip(expect, view):
                            got_n += 1
                            check(j, v, 'items' if path_.endswith('items') else path_)
                            if violations:
                                break
                            if mutate(v, how_):
                                mutated_idx.setdefault(j, set()).add(path_)
                                fired['client_mutation_' + how_] = fired.get('client_mutation_' + how_, 0) + 1
                            x_ = v[1] if path_.endswith('items') else v
                            sh_ = x_.get('shared') if isinstance(x_, dict) else \
                                (x_[-1] if isinstance(x_, list) and x_ and isinstance(x_[-1], list) else None)
                            if isinstance(sh_, list) and case.get('alias') == 'shared':
                                sh_.append('MUT')
                                mutated_idx.setdefault(j, set()).add(path_)
                                fired['client_mutation_shared_part'] = fired.get('client_mutation_shared_part', 0) + 1
                        if not violations and got_n != len(expect):
                            violations.append(hist.viol(
                                'wrong_length', 'wrong_length:%s:%s' % (store, path_),
                                'iteration via %s delivered %d of %d examples' % (path_, got_n, len(expect))))
                        probes['every_example_damaged_while_the_iteration_goes_on'] = 1
                        if path_.startswith('dupslice'):
                            probes['selection_with_repeated_neighbouring_indices'] = 1
                    except (OSError, _sq.OperationalError):
                        if case['store'] != 'diskcache':
                            raise
                    continue
                if op[0] == 'kc_open':
                    how_ = op[2] if len(op) > 2 else 'copy'
                    if how_ == 'tile':
                        kept_copy = ds.tile(2)
                    elif how_ == 'concat':
                        kept_copy = ds.concatenate(ds.copy())
                    else:
                        kept_copy = ds.copy()
                        for _ in range(op[1] - 1):
                            kept_copy = kept_copy.copy()
                    probes['copy_kept_and_read_again'] = 1
                    if how_ != 'copy':
                        probes['repetition_kept_and_read_again'] = 1
                    continue
                if op[0] == 'kc_read':
                    if kept_copy is not None:
                        try:
                            ln_ = len(kept_copy)       # n, or 2n for a repetition
                            if op[2] == 'index':
                                j_ = op[1] + (n if ln_ > n and op[1] % 2 else 0)
                                check(j_ % n, kept_copy[j_], 'kept_copy')
                            elif op[2] == 'iter':
                                for j, v in enumerate(kept_copy):
                                    check(j % n, v, 'kept_copy')
                            else:
                                for j, v in zip(range(op[1], ln_), kept_copy[op[1]:]):
                                    check(j % n, v, 'kept_copy')
                        except (OSError, _sq.OperationalError):
                            if case['store'] != 'diskcache':
                                raise
                    continue
                if op[0] == 'ks_open':
                    kept = [ds[op[1]:], op[1]]
                    probes['slice_dataset_kept'] = 1
                    continue
                if op[0] == 'ks_read':
                    if kept is not None and kept[1] + op[1] < n:
                        j = op[1]
                        try:
                            check(kept[1] + j, kept[0][j], 'kept_slice')
                        except (OSError, _sq.OperationalError):
                            if case['store'] != 'diskcache':
                                raise
                    continue
                if op[0] == 'store_error':
                    _c11.StoreFault.kind, _c11.StoreFault.countdown = op[1], op[2]
                    fired['store_error_armed'] = fired.get('store_error_armed', 0) + 1
                    continue
                if op[0] == 'read' and case['store'] == 'diskcache' and \
                        op[1] in ('prefetch1', 'prefetchw') and \
                        _c11.StoreFault.countdown is not None:
                    op = ['read', 'iter', op[2], op[3]]     # read sequentially while a store fault is armed
                if op[0] == 'read' and case['store'] == 'diskcache' and \
                        op[1] not in ('prefetch1', 'prefetchw'):
                    # a failing store may make the access raise (licensed); it
                    # must never make a later read return something else
                    before_f = _c11.StoreFault.fired
                    try:
                        _, path, i, seed = op
                        _read(ds, path, i, n, check)
                    except (OSError, _sq.OperationalError) as e:
                        if _c11.StoreFault.fired == before_f:
                            raise
                        probes['store_error_propagated'] = 1
                    continue
                if op[0] == 'read':
                    _, path, i, seed = op
                    if path == 'index':
                        check(i, ds[i], path)
                    elif path == 'neg':
                        check(i, ds[i - n], path)
                    elif path == 'key':
                        check(i, ds['k%d' % i], path)
                    elif path == 'iter':
                        got_all = list(ds)
                        try:
                            ln = len(ds)
                        except TypeError:
                            ln = n
                        if len(got_all) != n or ln != n:
                            violations.append(hist.viol(
                                'wrong_length', 'wrong_length:%s:%s' % (store, path),
                                'the dataset built from %d examples has length %d and iterates '
                                '%d examples (original container changed afterwards: %s)'
                                % (n, ln, len(got_all), bool(fired.get('original_container_mutation')))))
                            break
                        for j, v in enumerate(got_all):
                            check(j, v, path)
                    elif path == 'items':
                        for j, v in enumerate(ds.items()):
                            check(j, v, path)
                    elif path == 'slice':
                        for j, v in zip(range(i, n), ds[i:]):
                            check(j, v, path)
                    elif path == 'copy':
                        check(i, ds.copy()[i], path)
                    elif path == 'base':
                        # the dataset below the cache, read directly
                        check(i, (base if base is not None else ds)[i], path)
                    else:
                        w = 1 if path == 'prefetch1' else 2
                        out, err = _prefetch_read(ds, w, seed)
                        if err:
                            violations.append(hist.viol('hang', 'hang:' + store, err))
                            break
                        probes['read_by_prefetch_worker'] = 1
                        fired['prefetch_read'] = fired.get('prefetch_read', 0) + 1
                        if len(out) != n:
                            violations.append(hist.viol(
                                'wrong_length', 'wrong_length:%s:%s' % (store, path),
                                'prefetch delivered %d of %d examples' % (len(out), n)))
                            break
                        for j, v in enumerate(out):
                            check(j, v, path)
                elif op[0] == 'mutate':
                    _, how, which = op
                    if held:
                        v, i, path, first = held[which % len(held)]
                        if mutate(v, how):
                            mutated_idx.setdefault(i, set()).add(path)
                            fired['client_mutation_' + how] = fired.get('client_mutation_' + how, 0) + 1
                            probes['first_access_object_mutated' if first
                                   else 'cached_access_object_mutated'] = 1
                elif op[0] == 'mutate_original':
                    _, how, i = op
                    if how == 'grow':
                        extra = payload(100 + len(orig), case['shape'])
                        if kind == 'dict':
                            orig['g%d' % len(orig)] = extra
                        else:
                            orig.append(extra)
                        probes['original_container_grew_or_shrank'] = 1
                    elif how == 'shrink':
                        if kind == 'dict':
                            orig.pop('k%d' % i, None)
                        elif orig:
                            orig.pop()
                        probes['original_container_grew_or_shrank'] = 1
                    elif (kind == 'dict' and 'k%d' % i not in orig) or \
                            (kind != 'dict' and i >= len(orig)):
                        pass        # that entry was removed from the caller's container
                    elif how == 'replace':
                        if kind == 'dict':
                            orig['k%d' % i] = {'replaced': True}
                        else:
                            orig[i] = {'replaced': True}
                    else:
                        mutate(orig['k%d' % i] if kind == 'dict' else orig[i], how)
                    fired['original_container_mutation'] = fired.get('original_container_mutation', 0) + 1
                    probes['original_container_mutated'] = 1
        finally:
            S.end_building()
            try:
                import diskcache as _dc2
                from . import c11 as _c112
                _dc2.Cache.__setitem__ = _c112._orig_setitem
                _c112.StoreFault.countdown = None
            except Exception:
                pass
            held.clear()
            ds = None
            base = None
            gc.collect()
            if tmp:
                shutil.rmtree(tmp, ignore_errors=True)
    fired['store_' + case['store']] = 1
    nontrivial = any(k.startswith('client_mutation') or k == 'original_container_mutation'
                     for k in fired)
    return hist.outcome(case, nontrivial=nontrivial, key=hist.hkey(case),
                        violations=violations, fired=fired, probes=probes,
                        stats={'ops': len(case['ops'])},
                        sample={'case': case, 'pristine_0': pristine[0] if pristine else None},
                        digest_extra=None)


def _read(ds, path, i, n, check):
    if path == 'index':
        check(i, ds[i], path)
    elif path == 'neg':
        check(i, ds[i - n], path)
    elif path == 'key':
        check(i, ds['k%d' % i], path)
    elif path == 'iter':
        for j, v in enumerate(ds):
            check(j, v, path)
    elif path == 'items':
        for j, v in enumerate(ds.items()):
            check(j, v, path)
    elif path == 'slice':
        for j, v in zip(range(i, n), ds[i:]):
            check(j, v, path)
    elif path == 'copy':
        check(i, ds.copy()[i], path)


def _run_concurrent(case, ds, pristine, violations, probes, fired):
    """Two client threads read (by index) and immediately mutate what they
    got, under the seeded thread scheduler with line-granular pre-emption of
    lazy_dataset/core.py.  Every read must return the pristine value."""
    import threading
    sim = S.Sim(case['sched'], trace_files=[ldc.__file__])
    bad = []

    def client(cid, plan):
        for j, i in enumerate(plan):
            v = ds[i]
            nv = W.norm(v)
            if nv != pristine[i]:
                bad.append((cid, i, nv))
                return
            mutate(v, case['muts'][(cid * 2 + j) % len(case['muts'])])
            sim.yield_point('client')

    with S.simulation(sim):
        try:
            ts = [threading.Thread(target=client, args=(c, p))
                  for c, p in enumerate(case['plans'])]
            for t in ts:
                t.start()
            for t in ts:
                t.join()
            sim.drain()
        except S.SimAbort:
            pass
    if sim.failure:
        violations.append(hist.viol('hang', 'hang:concurrent:' + case['store'],
                                    'two concurrent clients: %s' % sim.failure))
    elif bad:
        cid, i, nv = bad[0]
        violations.append(hist.viol(
            'stored_data_changed', 'stored_data_changed:%s:concurrent_clients' % case['store'],
            'client %d read example %d as %s while another client was mutating the example '
            'it had been handed; pristine value is %s'
            % (cid, i, W.short(nv, 100), W.short(pristine[i], 100))))
    probes['two_client_threads'] = 1
    fired['concurrent_clients'] = 1
    fired['client_mutation_concurrent'] = 1


def _prefetch_read(ds, w, seed):
    sim = S.Sim({'policy': 'random', 'seed': seed}, trace_files=[ldp.__file__])
    out = []
    with S.simulation(sim):
        try:
            out = list(ds.prefetch(w, 2))
            sim.drain()
        except S.SimAbort:
            pass
    if sim.failure:
        return None, 'reading through prefetch: %s' % sim.failure
    return out, None


def shrink(case):
    yield from hist.shrink_ops(case, 'ops')
    if case['n'] > 1:
        c = hist.clone(case)
        c['n'] -= 1
        c['ops'] = [o for o in c['ops'] if not (o[0] in ('read', 'mutate_original')
                                                and o[2] >= c['n'])]
        yield c
    if case['shape'] != 'nested':
        c = hist.clone(case)
        c['shape'] = 'nested'
        yield c
