"""C13 - explicit seeds reproduce orders; frozen copies stay frozen; copies are
faithful."""
import numpy as np

from lazy_dataset import core as ldc
from lazy_dataset import parallel_utils as ldp

from .. import hist, pargen, sim as S
from .. import workload as W

PROP = 'C13'
LEVEL = 'exploration'
RULE = ('family = one generated pipeline containing at least one random stage '
        '(per-epoch reshuffle, buffer-local shuffle, one-time shuffle, lazy apply with '
        'its own generator) at any depth among map / slice / batch / filter / sort / '
        'concatenate stages, every generator explicitly seeded. Variants: two '
        'independent equal-seeded builds, copy() of a fresh build, copy(freeze=True), '
        'the build behind prefetch(1, b) and behind prefetch(w, b) (thread simulator), a '
        'build that keeps being iterated together with a frozen copy taken from it; in '
        'half of the pipelines with two random stages one generator object is shared by '
        'all of them; lazy apply functions that make a one-time shuffle or add a per-epoch '
        'reshuffle. Every 10th family instead builds one instance of every Dataset '
        'subclass with non-default parameters and compares vars() of it and its copy. '
        'The next() calls / epochs of all variants are interleaved by a seeded '
        'operation list with an adversary that reseeds or advances the global numpy '
        'state between any two steps. Oracle: epoch e of all variants equal; frozen '
        'variants repeat one order; ordered is False exactly with a reshuffling stage; '
        'vars() of every stage and of its copy agree. Non-trivial = an adversary step '
        'fired between two variant steps; distinct = distinct (pipeline, op list).')
PROBES = ['frozen_copy_of_prefetching_pipeline', 'iterator_created_before_another_epoch',
          'copy_of_every_dataset_subclass_with_non_default_parameters',
          'frozen_copy_of_live_dataset', 'one_generator_shared_by_stages',
          'adversary_step_inside_an_epoch', 'prefetch_pool_variant_ran',
          'prefetch_single_variant_ran', 'random_stage_below_other_stages',
          'refused_request_between_epochs', 'copy_refused_by_user_source']
BUDGET = {
    'quick': {'families': 5000, 'wall_cap': 420, 'shrink_s': 12},
    'thorough': {'families': 50000, 'wall_cap': 5400, 'shrink_s': 30},
}
COMPONENTS = {
    'real': ['lazy_dataset.core random stages (ReShuffleDataset, LocalShuffleDataset, '
             'Dataset.shuffle, ApplyDataset) and every copy() implementation on the path',
             'lazy_dataset.parallel_utils under the thread simulator for the prefetch variants',
             'numpy.random.RandomState and the global numpy state'],
    'replaced_by_simulator': ['order of variant steps and adversary steps (seeded op list)',
                              'thread schedule of the prefetch variants (seeded scheduler)'],
    'stub': [],
}
ASSUMPTIONS = ['the copy() variant is taken from a freshly built pipeline that is not iterated '
               'itself (as the property states)',
               'the adversary acts between next() calls / epochs of the consumer thread']

RANDOM_OPS = ('reshuffle', 'local_shuffle', 'apply')
KNOWN_TILED = 'ReShuffleDataset:copy_of_dataset_containing_one_reshuffle_object_twice'


def gen_desc(rng):
    for _ in range(200):
        n = rng.randrange(0, 8)
        kind = rng.choice(['list', 'dict'])
        desc = {'source': {'kind': kind, 'n': n},
                'stages': [{'op': 'map', 'id': 'u0'}]}
        a = pargen.abs_eval(desc)
        k = rng.randrange(1, 5)
        have_random = False
        for j in range(k):
            for _try in range(8):
                r = rng.random()
                if have_random and r > 0.9 and a.sized:
                    # the same (random) dataset object occurs twice in one concatenation
                    sts = [{'op': 'tile', 'reps': 2}]
                elif r < 0.45:
                    op = rng.choice(['reshuffle', 'reshuffle', 'local_shuffle',
                                     'shuffle', 'apply'])
                    st = {'op': op, 'seed': rng.randrange(1 << 16)}
                    if op == 'local_shuffle':
                        st['bs'] = rng.randrange(1, 5)
                    if op == 'apply' and rng.random() < 0.5:
                        st['inner'] = 'reshuffle'   # the apply function adds a random stage
                    sts = [st]
                elif not (have_random and r > 0.9 and a.sized):
                    sts = pargen.gen_upstream_stage(rng, a, 'u%d' % (j + 1), True)
                    if sts[0]['op'] == 'cache':
                        continue
                    for st_ in sts:
                        # every partner dataset gets its own id (and key) range
                        if st_['op'] in ('concat', 'zip', 'intersperse', 'keyzip'):
                            st_['offset'] = 100 * (j + 1) + (50 if st_['op'] == 'zip' else 0) + \
                                (70 if st_['op'] == 'keyzip' else 0)
                b = a
                for st in sts:
                    b = pargen.abs_apply(b, st) if b is not None else None
                if b is not None:
                    desc['stages'] += sts
                    a = b
                    if sts[0]['op'] in RANDOM_OPS + ('shuffle',):
                        have_random = True
                    break
        if have_random:
            return desc, a
    raise RuntimeError('no random pipeline generated')


PARAM_CLASSES = ['catch', 'prefetch', 'parmap', 'batch', 'cache', 'bucket', 'local',
                 'reshuffle', 'slice', 'filter', 'map', 'zip', 'keyzip', 'concat',
                 'intersperse', 'items', 'unbatch', 'apply', 'profile', 'dict', 'list']


def build_param_instance(kind, r):
    """One stage of class `kind` with non-default parameters drawn from r."""
    import lazy_dataset
    n = r.randrange(2, 6)
    base = lazy_dataset.new({'k%d' % i: {'src': i} for i in range(n)})
    other = lazy_dataset.new({'k%d' % i: {'src': 100 + i} for i in range(n)})
    if kind == 'catch':
        return ldc.CatchExceptionDataset(base, exceptions=r.choice(
            [(ValueError, KeyError), ValueError, (W.InjectedError,)]), warn=r.random() < 0.7)
    if kind == 'prefetch':
        w = r.randrange(1, 4)
        return ldc.PrefetchDataset(base, w, w + r.randrange(0, 5), backend=r.choice(['t', 'mp', 'dill_mp']),
                                   catch_filter_exception=r.choice([True, (ValueError,), False]))
    if kind == 'parmap':
        w = r.randrange(1, 4)
        return ldc.ParMapDataset(W.MapFn('p'), base, num_workers=w,
                                 buffer_size=w + r.randrange(0, 9), backend=r.choice(['t', 'mp']))
    if kind == 'batch':
        return ldc.BatchDataset(base, r.randrange(1, 5), drop_last=r.random() < 0.7)
    if kind == 'cache':
        return ldc.CacheDataset(base, keep_mem_free=r.choice(['3 GB', '1GiB', 12345]))
    if kind == 'bucket':
        return ldc.DynamicBucketDataset(
            base, ldc.DynamicTimeSeriesBucket, expiration=r.randrange(1, 6),
            max_buffered_examples=r.randrange(2, 9), drop_incomplete=r.random() < 0.6,
            sort_key=W.KeyFn('sk'), reverse_sort=r.random() < 0.6, batch_size=r.randrange(1, 4),
            len_key=W.KeyFn('lk'), max_padding_rate=r.choice([0.1, 0.3, 0.7]),
            max_total_size=r.choice([None, 7, 20]))
    if kind == 'local':
        return ldc.LocalShuffleDataset(base, buffer_size=r.randrange(1, 9),
                                       rng=np.random.RandomState(r.randrange(99)))
    if kind == 'reshuffle':
        return ldc.ReShuffleDataset(base, rng=np.random.RandomState(r.randrange(99)))
    if kind == 'slice':
        return base[[r.randrange(n) for _ in range(r.randrange(1, 5))]]
    if kind == 'filter':
        return ldc.FilterDataset(W.FilterFn('f', 2, 0), base)
    if kind == 'map':
        return ldc.MapDataset(W.MapFn('m'), base)
    if kind == 'zip':
        return ldc.ZipDataset(base, other, base)
    if kind == 'keyzip':
        return ldc.KeyZipDataset(base, base.map(W.MapFn('kz')))
    if kind == 'concat':
        return ldc.ConcatenateDataset(base, other, base)
    if kind == 'intersperse':
        return ldc.IntersperseDataset(base, other)
    if kind == 'items':
        return ldc.ItemsDataset(base)
    if kind == 'unbatch':
        return ldc.UnbatchDataset(base.batch(2))
    if kind == 'apply':
        return ldc.ApplyDataset(W.ApplyShuffle(r.randrange(99)), base)
    if kind == 'profile':
        return ldc.ProfilingDataset(base.map(W.MapFn('pm')))
    if kind == 'dict':
        return ldc.DictDataset({'a': 1, 'b': 2}, name='nm%d' % r.randrange(9))
    if kind == 'list':
        return ldc.ListDataset([1, 2, 3], name='nm%d' % r.randrange(9))
    raise ValueError(kind)


def run_params(case):
    import random
    import warnings
    r = random.Random(case['pseed'])
    W.set_ctx(W.Ctx())
    violations = []
    try:
        with warnings.catch_warnings(record=True):
            warnings.simplefilter('always')    # recorded, not printed; never 'ignore': dependencies inspect warnings
            ds = build_param_instance(case['kind'], r)
            msg = compare_copy(ds)
            if msg is None:
                # a copy of the copy, and a stage above it, must be faithful too
                msg = compare_copy(ds.copy())
    finally:
        W.set_ctx(None)
    if msg:
        violations.append(hist.viol(
            'copy_not_faithful', 'copy_not_faithful:' + msg.split('.copy()')[0]
            + ':' + (msg.split("'")[1] if "'" in msg else ''), msg))
    return hist.outcome(case, nontrivial=True, key=hist.hkey(case), violations=violations,
                        fired={'mode_params': 1, 'class_' + case['kind']: 1},
                        probes={'copy_of_every_dataset_subclass_with_non_default_parameters': 1},
                        stats={}, sample={'case': case}, digest_extra=None)


def run_created_early(case):
    """An iterator is created, a complete epoch is run with another iterator,
    then the first one is consumed: the random draws must happen when an
    iteration starts to deliver (first next), for the plain pipeline and for
    the pipeline behind prefetch alike."""
    import warnings
    desc = case['desc']
    st = np.random.get_state()
    np.random.seed(case['gseed'])
    W.set_ctx(W.Ctx())
    outs = {}
    violations = []
    try:
        with warnings.catch_warnings(record=True):
            warnings.simplefilter('always')    # recorded, not printed; never 'ignore': dependencies inspect warnings
            for name in case['variants']:
                base = W.build(desc)
                if name == 'A':
                    ds = base
                elif name == 'P1':
                    ds = base.prefetch(1, case['pf']['b1'])
                else:
                    ds = base.prefetch(case['pf']['w'], case['pf']['bw'])
                sim = S.Sim({'policy': 'random', 'seed': case['sched_seed']},
                            trace_files=[ldp.__file__])
                res = None
                with S.simulation(sim):
                    try:
                        x = iter(ds)
                        y_out = [W.norm(v) for v in ds]
                        x_out = [W.norm(v) for v in x]
                        x = None
                        sim.drain()
                        res = [y_out, x_out]
                    except S.SimAbort:
                        pass
                if sim.failure or res is None:
                    violations.append(hist.viol('variant_failed', 'variant_failed:%s:hang' % name,
                                                'variant %s: %s' % (name, sim.failure)))
                    break
                outs[name] = res
    finally:
        np.random.set_state(st)
        W.set_ctx(None)
    if not violations:
        for name in case['variants']:
            if outs[name] != outs['A']:
                violations.append(hist.viol(
                    'order_not_reproduced', 'order_not_reproduced:%s:created_early' % name,
                    'an iterator created before, but consumed after, a complete epoch: variant '
                    '%s yields %s, the plain pipeline %s'
                    % (name, [[list(W.src_ids(v)) for v in o] for o in outs[name]],
                       [[list(W.src_ids(v)) for v in o] for o in outs['A']])))
                break
    return hist.outcome(case, nontrivial=True, key=hist.hkey(case), violations=violations,
                        fired={'mode_created_early': 1},
                        probes={'iterator_created_before_another_epoch': 1}, stats={},
                        sample={'case': case}, digest_extra=outs)


def gen(rng, tier, index):
    if index % 10 == 8:
        desc, a = gen_desc(rng)
        variants = ['A', 'P1'] + (['Pw'] if a.sized and a.findexable else [])
        pf = {'b1': rng.randrange(1, 4), 'w': rng.randrange(2, 4)}
        pf['bw'] = pf['w'] + rng.randrange(0, 3)
        return [{'mode': 'created_early', 'desc': desc, 'variants': variants, 'pf': pf,
                 'sched_seed': rng.randrange(1 << 30), 'gseed': rng.randrange(1 << 16)}
                for _ in range(2)]
    if index % 10 == 9:
        # copy() of every Dataset subclass with non-default parameters
        return [{'mode': 'params', 'kind': k, 'pseed': rng.randrange(1 << 30)}
                for k in PARAM_CLASSES]
    desc, a = gen_desc(rng)
    if sum(1 for s in desc['stages'] if s['op'] in RANDOM_OPS + ('shuffle',)) >= 2 \
            and rng.random() < 0.5 and not any(s['op'] == 'apply' for s in desc['stages']):
        # one generator object handed to every random stage of the build
        desc['shared_rng'] = rng.randrange(1 << 16)
    nocopy = False
    if desc['source']['kind'] == 'list' and rng.random() < 0.12 and \
            not any(s['op'] in ('apply', 'tile') for s in desc['stages']):
        # the source is a user-written dataset without copy(): every request for a
        # copy is refused, and a refusal must not draw anything
        d2 = dict(desc, source=dict(desc['source'], kind='user_nocopy'))
        if pargen.abs_eval(d2) is not None:
            desc, nocopy = d2, True
    epochs = rng.choice([2, 2, 3])
    per_epoch = any(s['op'] in RANDOM_OPS for s in desc['stages'])
    variants = ['A', 'B', 'C']
    if not any(s['op'] == 'local_shuffle' for s in desc['stages']):
        variants.append('F')
        variants.append('FP')
        if per_epoch:
            # a frozen copy taken from a build that keeps being iterated
            variants += ['G', 'FG', 'FGC']
    pf = {'b1': rng.randrange(1, 4), 'w': rng.randrange(2, 4)}
    pf['bw'] = pf['w'] + rng.randrange(0, 3)
    variants.append('P1')
    if a.sized and a.findexable:
        variants.append('Pw')
    if nocopy:
        variants = ['A', 'B']
    upper = desc['source']['n'] * 2 + 8
    cases = []
    for j in range(3):
        ops = []
        for v in variants:
            if v in ('P1', 'Pw', 'FP'):
                ops += [['epoch', v]] * epochs
            else:
                ops += [['next', v]] * (epochs * (upper + 1))
        rng.shuffle(ops)
        nadv = rng.choice([1, 2, 4, 8])
        for _ in range(nadv):
            ops.insert(rng.randrange(0, len(ops) + 1),
                       rng.choice([['reseed', rng.randrange(1 << 16)],
                                   ['advance', rng.randrange(1, 6)]]))
        if (nocopy or rng.random() < 0.3) and not any(s_['op'] == 'apply' for s_ in desc['stages']):
            # (a lazy apply stage runs its function - which may draw - for every
            # request, also for one that is refused in the end: not generated)
            # requests the pipeline refuses (items() without keys, an absent key,
            # an index far outside, len() of an unsized pipeline), made on one of
            # the plain variants between its iterations: a refusal draws nothing
            for _ in range(rng.randrange(1, 3)):
                ops.insert(rng.randrange(0, len(ops) + 1),
                           ['refused', 'B' if nocopy else rng.choice(['B', 'C'])])
        cases.append({'desc': desc, 'epochs': epochs, 'variants': variants, 'pf': pf,
                      'ops': ops, 'sched_seed': rng.randrange(1 << 30),
                      'gseed': rng.randrange(1 << 16)})
    return cases


class _Variant:
    def __init__(self, name, ds, epochs):
        self.name, self.ds, self.left = name, ds, epochs
        self.it = None
        self.outs = []
        self.error = None

    def step(self):
        if self.left <= 0 or self.error:
            return False
        if self.it is None:
            if callable(self.ds) and not hasattr(self.ds, 'copy'):
                self.ds = self.ds()        # derived at first use
            self.it = iter(self.ds)
            self.outs.append([])
        try:
            self.outs[-1].append(W.norm(next(self.it)))
        except StopIteration:
            self.it = None
            self.left -= 1
        except Exception as e:
            self.error = '%s: %s' % (type(e).__name__, W.short(str(e), 120))
        return True

    def in_epoch(self):
        return self.it is not None


def _epoch_under_sim(ds, seed):
    sim = S.Sim({'policy': 'random', 'seed': seed}, trace_files=[ldp.__file__])
    out = None
    with S.simulation(sim):
        try:
            out = [W.norm(x) for x in ds]
            sim.drain()
        except S.SimAbort:
            pass
    if sim.failure:
        return None, 'hang:%s' % sim.failure
    return out, None


def _stage_chain(ds):
    out = []
    todo = [ds]
    while todo:
        d = todo.pop()
        out.append(d)
        if hasattr(d, 'input_dataset'):
            todo.append(d.input_dataset)
        if hasattr(d, 'input_datasets'):
            todo.extend(reversed(list(d.input_datasets)))
    return out


def _same_value(a, b):
    if a is b:
        return True
    if isinstance(a, np.ndarray) or isinstance(b, np.ndarray):
        try:
            return np.array_equal(a, b)
        except Exception:
            return False
    if isinstance(a, np.random.RandomState) and isinstance(b, np.random.RandomState):
        sa, sb = a.get_state(), b.get_state()
        return sa[0] == sb[0] and np.array_equal(sa[1], sb[1]) and sa[2:] == sb[2:]
    try:
        return bool(a == b)
    except Exception:
        return False


def compare_copy(ds):
    """vars() of every stage and of its copy() agree on every parameter."""
    import warnings
    with warnings.catch_warnings(record=True):
        warnings.simplefilter('always')    # recorded, not printed; never 'ignore': dependencies inspect warnings
        cp = ds.copy()
    a, b = _stage_chain(ds), _stage_chain(cp)
    if [type(x) for x in a] != [type(x) for x in b]:
        return 'copy() changed the stage types: %s -> %s' % (
            [type(x).__name__ for x in a], [type(x).__name__ for x in b])
    for x, y in zip(a, b):
        vx, vy = vars(x), vars(y)
        for k, v in vx.items():
            if k in ('input_dataset', 'input_datasets'):
                continue
            if k.startswith('_keys') or k == '_permutation':
                continue        # lazily filled caches / per-iteration scratch
            if k not in vy:
                return '%s.copy() lost attribute %r' % (type(x).__name__, k)
            if not _same_value(v, vy[k]):
                return '%s.copy() changed %r: %s -> %s' % (
                    type(x).__name__, k, W.short(v, 60), W.short(vy[k], 60))
    return None


def run(case):
    if case.get('mode') == 'params':
        return run_params(case)
    if case.get('mode') == 'created_early':
        return run_created_early(case)
    desc = case['desc']
    E = case['epochs']
    st = np.random.get_state()
    np.random.seed(case['gseed'])
    W.set_ctx(W.Ctx())
    violations, probes, fired = [], {}, {}
    kinds = sorted({s['op'] for s in desc['stages']
                    if s['op'] in RANDOM_OPS + ('shuffle',)})
    tag = '+'.join(kinds)
    outs = {}
    try:
        import warnings
        with warnings.catch_warnings(record=True):
            warnings.simplefilter('always')    # recorded, not printed; never 'ignore': dependencies inspect warnings
            vs = {}
            gbase = None
            for name in case['variants']:
                if name == 'FG':
                    vs[name] = _Variant(name, gbase.copy(freeze=True), E)
                    continue
                if name == 'FGC':
                    # a copy of that frozen copy, taken when FGC is first used (the
                    # live dataset has usually moved on by then): equally frozen
                    vs[name] = _Variant(name, (lambda fg=vs['FG']: fg.ds.copy()), E)
                    continue
                base = W.build(desc)
                if name == 'G':
                    gbase = base
                if name in ('A', 'B', 'G'):
                    ds = base
                elif name == 'C':
                    ds = base.copy()
                elif name == 'F':
                    # any truthy flag freezes (numpy booleans come out of comparisons)
                    flag = [True, np.bool_(True), 1][case['sched_seed'] % 3]
                    ds = base.copy(freeze=flag)
                elif name == 'FP':
                    ds = base.prefetch(1, case['pf']['b1']).copy(freeze=True)
                elif name == 'P1':
                    ds = base.prefetch(1, case['pf']['b1'])
                elif name == 'Pw':
                    ds = base.prefetch(case['pf']['w'], case['pf']['bw'])
                vs[name] = _Variant(name, ds, E)
            base = W.build(desc)
            msg = compare_copy(base) if desc['source']['kind'] != 'user_nocopy' else None
            if msg:
                violations.append(hist.viol(
                    'copy_not_faithful', 'copy_not_faithful:' + msg.split('.copy()')[0]
                    + ':' + (msg.split("'")[1] if "'" in msg else ''), msg))
            per_epoch = any(s['op'] in RANDOM_OPS for s in desc['stages'])
            try:
                o = base.ordered
            except Exception as e:
                o = type(e).__name__
            if o is not (not per_epoch):
                violations.append(hist.viol(
                    'ordered_flag_wrong', 'ordered_flag_wrong:%s' % tag,
                    'ordered is %r for a pipeline %s a per-epoch random stage'
                    % (o, 'with' if per_epoch else 'without')))
            pos = [i for i, s in enumerate(desc['stages']) if s['op'] in RANDOM_OPS]
            if pos and pos[0] < len(desc['stages']) - 1:
                probes['random_stage_below_other_stages'] = 1
            ep_count = {'P1': 0, 'Pw': 0, 'FP': 0}
            for op, arg in case['ops']:
                if op == 'reseed':
                    np.random.seed(arg)
                    fired['global_reseed'] = fired.get('global_reseed', 0) + 1
                    if any(v.in_epoch() for v in vs.values()):
                        probes['adversary_step_inside_an_epoch'] = 1
                elif op == 'advance':
                    np.random.rand(arg)
                    fired['global_advance'] = fired.get('global_advance', 0) + 1
                    if any(v.in_epoch() for v in vs.values()):
                        probes['adversary_step_inside_an_epoch'] = 1
                elif op == 'refused':
                    v = vs.get(arg)
                    if v is not None and not v.in_epoch() and not v.error:
                        refusals = 0
                        reqs = [lambda d: d['__no_such_key__'], lambda d: d[10 ** 9],
                                lambda d: len(d)]
                        if desc['source']['kind'] == 'user_nocopy':
                            # no copy(): freezing and everything built on it is refused
                            reqs += [lambda d: d.copy(freeze=True), lambda d: d.copy(),
                                     lambda d: next(iter(d.catch()))]
                            probes['copy_refused_by_user_source'] = 1
                        if desc['source']['kind'] in ('list', 'user_nocopy'):
                            # nothing in the pipeline has keys: items() is refused
                            # before anything is delivered
                            reqs.insert(0, lambda d: next(iter(d.items())))
                        for req in reqs:
                            try:
                                req(v.ds)
                            except BaseException:
                                refusals += 1
                        if refusals:
                            fired['refused_request'] = fired.get('refused_request', 0) + refusals
                            probes['refused_request_between_epochs'] = 1
                elif op == 'next':
                    if arg in vs:
                        vs[arg].step()
                elif op == 'epoch':
                    v = vs.get(arg)
                    if v is None or v.left <= 0 or v.error:
                        continue
                    out, err = _epoch_under_sim(
                        v.ds, case['sched_seed'] + 31 * ep_count[arg])
                    ep_count[arg] += 1
                    if err:
                        v.error = err
                    else:
                        v.outs.append(out)
                        v.left -= 1
                        probes['prefetch_pool_variant_ran' if arg == 'Pw'
                               else ('frozen_copy_of_prefetching_pipeline' if arg == 'FP'
                                     else 'prefetch_single_variant_ran')] = 1
            # finish what the op list left open (deterministic order)
            for name in case['variants']:
                v = vs[name]
                guard = 0
                while v.left > 0 and not v.error and guard < 10000:
                    guard += 1
                    if name in ('P1', 'Pw', 'FP'):
                        out, err = _epoch_under_sim(
                            v.ds, case['sched_seed'] + 31 * ep_count[name])
                        ep_count[name] += 1
                        if err:
                            v.error = err
                        else:
                            v.outs.append(out)
                            v.left -= 1
                    else:
                        v.step()
            outs = {k: v.outs for k, v in vs.items()}
            for name, v in vs.items():
                if v.error:
                    violations.append(hist.viol(
                        'variant_failed', 'variant_failed:%s:%s' % (name, v.error.split(':')[0]),
                        'variant %s raised %s' % (name, v.error)))
            if not any(v.error for v in vs.values()):
                ref = vs['A'].outs
                for name in case['variants']:
                    if name in ('A', 'F', 'G', 'FG', 'FP', 'FGC'):
                        continue
                    for e in range(E):
                        if vs[name].outs[e] != ref[e]:
                            sig_ = 'order_not_reproduced:%s:%s' % (name, tag)
                            ops_ = [s_['op'] for s_ in desc['stages']]
                            if name == 'C' and 'reshuffle' in ops_ and \
                                    'tile' in ops_[ops_.index('reshuffle'):]:
                                sig_ = KNOWN_TILED
                            violations.append(hist.viol(
                                'order_not_reproduced', sig_,
                                'epoch %d of variant %s differs from the equal-seeded '
                                'build A: %s vs %s' % (
                                    e, name,
                                    [list(W.src_ids(x)) for x in vs[name].outs[e]],
                                    [list(W.src_ids(x)) for x in ref[e]])))
                            break
                for fname in ('F', 'FG', 'FP'):
                    if fname not in vs:
                        continue
                    f = vs[fname].outs
                    if any(f[e] != f[0] for e in range(E)):
                        violations.append(hist.viol(
                            'frozen_copy_not_frozen', 'frozen_copy_not_frozen:%s:%s' % (fname, tag),
                            'copy(freeze=True) %s iterated in different orders: %s'
                            % ('of a dataset that kept being iterated' if fname == 'FG' else '',
                               [[list(W.src_ids(x)) for x in ep] for ep in f])))
                        break
                if 'FGC' in vs and 'FG' in vs and not violations and \
                        any(vs['FGC'].outs[e] != vs['FG'].outs[0] for e in range(E)):
                    violations.append(hist.viol(
                        'frozen_copy_not_frozen', 'frozen_copy_not_frozen:FGC:%s' % tag,
                        'a copy() of a frozen copy, taken after the live dataset had moved on, '
                        'iterates %s; the frozen copy itself %s'
                        % ([[list(W.src_ids(x)) for x in ep] for ep in vs['FGC'].outs],
                           [list(W.src_ids(x)) for x in vs['FG'].outs[0]])))
                if 'FG' in vs:
                    probes['frozen_copy_of_live_dataset'] = 1
                if desc.get('shared_rng') is not None:
                    probes['one_generator_shared_by_stages'] = 1
                if not per_epoch and any(ref[e] != ref[0] for e in range(E)):
                    violations.append(hist.viol(
                        'one_time_shuffle_not_fixed', 'one_time_shuffle_not_fixed:%s' % tag,
                        'a pipeline whose only random stage is a one-time shuffle '
                        'changed its order between epochs'))
    finally:
        np.random.set_state(st)
        W.set_ctx(None)
    nontrivial = bool(fired)
    for k in kinds:
        fired['stage_' + k] = 1
    return hist.outcome(
        case, nontrivial=nontrivial, key=hist.hkey(case), violations=violations,
        fired=fired, probes=probes, stats={'ops': len(case['ops'])},
        sample={'case': {k: v for k, v in case.items() if k != 'ops'},
                'ops_head': case['ops'][:30],
                'epochs_A': [[list(W.src_ids(x)) for x in ep] for ep in outs.get('A', [])]},
        digest_extra=outs)


def shrink(case):
    if case.get('mode') in ('params', 'created_early'):
        return

    def fix(c):
        return c
    yield from hist.shrink_ops(case, 'ops', fix)
    for v in list(case['variants']):
        if v != 'A' and len(case['variants']) > 2:
            c = hist.clone(case)
            c['variants'].remove(v)
            c['ops'] = [o for o in c['ops'] if o[1] != v]
            yield c
    desc = case['desc']
    for i in range(len(desc['stages']) - 1, 0, -1):
        c = hist.clone(case)
        st = c['desc']['stages'][i]
        if st['op'] == 'fragment':
            continue
        if st['op'] == 'unbatch':
            del c['desc']['stages'][i - 1:i + 1]
        else:
            del c['desc']['stages'][i]
        a = pargen.abs_eval(c['desc'])
        if a is not None and any(s['op'] in RANDOM_OPS + ('shuffle',)
                                 for s in c['desc']['stages']):
            if 'Pw' in c['variants'] and not (a.sized and a.findexable):
                continue
            yield c
    if case['epochs'] > 2:
        c = hist.clone(case)
        c['epochs'] = 2
        yield c
