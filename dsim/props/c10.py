"""C10 - memory cache: transparent, computes each example once, freezes it."""
import warnings
import collections

import psutil

import lazy_dataset
from lazy_dataset import parallel_utils as ldp
from lazy_dataset import core as ldc

from .. import hist, sim as S
from .. import workload as W

PROP = 'C10'
LEVEL = 'exploration'
RULE = ('family = one dataset src.map(u0).map(fresh).cache(keep_mem_free=K) (fresh '
        'returns a new nonce per call, or is deterministic), n in 1..7, list or dict '
        'source, K absolute or percent; 3 histories of 6-22 operations drawn from: '
        'ds[i], ds[i-n], ds[key], slice iteration, full / partial iteration, items(), '
        'the same through copy() and copy(freeze=True), iteration through '
        'prefetch(1,b) and prefetch(w,b) under the thread simulator, in-place mutation '
        'of the returned example, and the fault "available memory drops to / below '
        'the threshold" at any step, also in the middle of a prefetch iteration and '
        'while the missing example of an index access is being loaded (that example '
        'must not be cached any more) '
        '(separate flapping configuration where it recovers); an iterator over the cache '
        'held open and advanced step by step between other accesses; numpy integer '
        'indices; a second independent cache created after the first one crossed its '
        'threshold; plus eager caching '
        '(lazy=False) histories. Reference model: index -> first computed value, '
        'call counter per index, memory state. Non-trivial = at least one access hit '
        'an already frozen example or the memory fault fired; distinct = distinct '
        '(dataset, history).')
PROBES = ['out_of_range_index_refused', 'miss_after_memory_recovered_not_cached', 'memory_dropped_while_the_example_was_loaded', 'eager_cache_of_a_raw_container_dataset', 'concurrent_access_by_key', 'eager_cache_of_duplicate_keys_without_length', 'two_clients_same_index_at_once', 'held_iterator_met_entry_cached_meanwhile', 'second_cache_created_after_first_crossed',
          'cache_hit_after_threshold', 'cache_miss_after_threshold',
          'negative_index_hits_positive_entry', 'key_hits_index_entry',
          'copy_shares_cache', 'prefetch_worker_filled_cache',
          'threshold_crossed_inside_prefetch_iteration', 'mutation_then_reread']
BUDGET = {
    'quick': {'families': 8000, 'wall_cap': 420, 'shrink_s': 12},
    'thorough': {'families': 80000, 'wall_cap': 5400, 'shrink_s': 30},
}
COMPONENTS = {
    'real': ['lazy_dataset.core.CacheDataset / _CacheWrapper / Dataset.cache / from_dataset',
             'lazy_dataset.parallel_utils under the thread simulator for prefetch accesses'],
    'replaced_by_simulator': ['psutil.virtual_memory (available / total read from simulator state)',
                              'thread schedule of the prefetch accesses'],
    'stub': [],
}
ASSUMPTIONS = ['accesses form a sequence; concurrency exists only inside one prefetch iteration '
               '(two simultaneous iterations racing on one index are outside the quantifier)',
               'memory pressure is whatever psutil.virtual_memory() reports']

GiB = 1024 ** 3


class Mem:
    total = 64 * GiB
    available = 48 * GiB


def _fake_virtual_memory():
    # page-cache heavy host: 'free' is far below 'available' (the library must
    # look at 'available')
    sv = collections.namedtuple('svmem', 'total available percent used free active '
                                'inactive buffers cached shared slab')
    free = min(Mem.available, 512 * 1024 ** 2)
    used = Mem.total - Mem.available
    return sv(Mem.total, Mem.available, round(100.0 * used / Mem.total, 1), used, free,
              0, 0, 0, Mem.available - free, 0, 0)


class NoneDetFn(W.MapFn):
    """deterministic map whose value is None for every third example (a loader
    that returns None for a missing file)"""

    def __call__(self, x):
        ctx, ids = W._enter(self.stage, x)
        ctx.event('ret', self.stage, ids)
        if ids[0] % 3 == 0:
            return None
        return {'f': self.stage, 'x': x}


class YieldingList(list):
    """a list with a Python-level pickling hook (as objects with __reduce__ /
    __getstate__ have): while an example is being serialised the scheduler may
    switch to another thread"""

    def __reduce_ex__(self, protocol):
        sim = S.SIM
        if sim is not None and sim.me() is not None and not sim.aborting:
            sim.yield_point('pickle')
        return (YieldingList, (list(self),))


class TupleFn:
    """x -> (x, [marker]): a shallowly immutable example with mutable content"""

    def __call__(self, x):
        return (x, YieldingList(['m']))


class FreshLogFn(W.FreshFn):
    def __call__(self, x):
        ctx, ids = W._enter(self.stage, x)
        ctx.nonce += 1
        ctx.event('fresh', self.stage, ids, ctx.nonce)
        return {'f': self.stage, 'x': x, 'nonce': ctx.nonce}


def gen_ops(rng, n, dict_source, k, flap):
    ops = []
    kinds = ['get', 'get', 'get', 'getneg', 'npget', 'get_oob', 'slice_iter', 'iter', 'iter_k',
             'copy_get', 'copy_iter', 'fcopy_get', 'prefetch1', 'prefetchw',
             'mutate', 'mutate', 'it_open', 'it_next', 'it_next', 'it_next', 'concurrent_get']
    if dict_source:
        kinds += ['key', 'key', 'items_iter']
    for _ in range(k):
        op = rng.choice(kinds)
        if op == 'get_oob':
            # an index outside the dataset, on either side: IndexError, nothing computed
            ops.append([op, rng.choice([n, n + 1, -n - 1, -2 * n, -n - 2, 2 * n + 1])])
        elif op in ('get', 'getneg', 'npget', 'key', 'copy_get', 'fcopy_get'):
            ops.append([op, rng.randrange(n)])
        elif op == 'concurrent_get':
            ops.append([op, [rng.randrange(n), rng.randrange(1 << 20)]])
        elif op == 'slice_iter':
            a = rng.randrange(0, n)
            ops.append([op, [a, rng.randrange(a, n + 1)]])
        elif op == 'iter_k':
            ops.append([op, rng.randrange(0, n + 1)])
        elif op == 'it_open':
            ops.append([op, rng.choice(['ds', 'ds', 'copy', 'items'])])
        elif op == 'prefetch1':
            ops.append([op, [1, rng.randrange(1, 4), rng.randrange(1 << 20),
                             rng.choice([None, None, rng.randrange(0, n + 1)])]])
        elif op == 'prefetchw':
            w = rng.randrange(2, 4)
            ops.append([op, [w, w + rng.randrange(0, 2), rng.randrange(1 << 20),
                             rng.choice([None, None, rng.randrange(0, n + 1)])]])
        else:
            ops.append([op, None])
    # memory fault somewhere (one-way), or flapping
    if rng.random() < 0.7:
        pos = rng.randrange(0, len(ops) + 1)
        if not flap and rng.random() < 0.3:
            # the threshold is crossed WHILE an example is being loaded (by the
            # load itself): that example must not be cached any more
            ops.insert(pos, ['get_drop', [rng.randrange(n), rng.choice(['below', 'equal'])]])
        else:
            ops.insert(pos, ['mem_low', rng.choice(['below', 'equal'])])
        if flap:
            pos2 = rng.randrange(pos + 1, len(ops) + 1)
            ops.insert(pos2, ['mem_ok', None])
        elif rng.random() < 0.35:
            # a second, independent cache created after the first one crossed
            # its threshold (memory still permits for the smaller threshold)
            pos2 = rng.randrange(pos + 1, len(ops) + 1)
            ops.insert(pos2, ['second_cache', None])
    return ops


def gen(rng, tier, index):
    n = rng.randrange(1, 8)
    src = rng.choice(['list', 'dict'])
    base = {'n': n, 'source': src, 'fresh': rng.random() < 0.7,
            'keep': rng.choice(['5 GB', '50%', '2GiB', None, '4096 MiB', 3 * GiB, ' 25 % ',
                                '6442450944']),
            'tuple': rng.random() < 0.2}
    if not base['fresh'] and not base['tuple'] and rng.random() < 0.4:
        base['nonevals'] = True
    cases = []
    for j in range(3):
        flap = rng.random() < 0.2
        eager = rng.random() < 0.12
        c = dict(base, flap=flap, eager=eager)
        c['ops'] = gen_ops(rng, n, src == 'dict', rng.randrange(6, 23), flap)
        if eager and rng.random() < 0.35:
            c['eager_dup'] = True
        elif eager and rng.random() < 0.25:
            c['eager_raw'] = True
        if eager:
            c['ops'] = [o for o in c['ops'] if o[0] in
                        ('get', 'getneg', 'key', 'slice_iter', 'iter', 'iter_k',
                         'items_iter', 'mutate', 'upstream_iter')]
            c['ops'].insert(rng.randrange(0, len(c['ops']) + 1), ['upstream_iter', None])
        cases.append(c)
    return cases


# the limit in its legal spellings and what each means (written down by hand,
# not computed with the parser the library uses)
KEEP_SPELLINGS = {'5 GB': 5 * GiB, '2GiB': 2 * GiB, '4096 MiB': 4 * GiB, 3 * GiB: 3 * GiB,
                  '6442450944': 6 * GiB}


def threshold(keep):
    if keep is None:
        return 8 * GiB
    if isinstance(keep, str) and keep.strip().endswith('%'):
        return Mem.total * float(keep.strip(' %')) / 100
    return KEEP_SPELLINGS[keep]


def _mutate(v):
    """deep in-place damage of a returned example"""
    try:
        if isinstance(v, tuple) and len(v) == 2 and isinstance(v[0], str):
            v = v[1]            # (key, example) pair from items()
        if isinstance(v, tuple):
            for part in v:
                if isinstance(part, list):
                    part.append('MUT')
                elif isinstance(part, dict):
                    _mutate(part)
            return
        if isinstance(v, dict):
            inner = v.get('x')
            if isinstance(inner, dict):
                inner['x'] = 'MUTATED'
                inner['extra'] = [1, 2]
            v['junk'] = {'a': 1}
            v.pop('f', None)
            if 'nonce' in v:
                v['nonce'] = -1
    except Exception:
        pass


class Model:
    def __init__(self, case):
        self.case = case
        self.frozen = {}
        self.unknown = set()    # after two overlapping first accesses: whichever was stored
        self.maybe = {}
        self.ncalls = collections.Counter()
        self.last = {}
        self.low = False
        self.was_low = False
        self.pos = 0            # position in the event log already consumed
        self.violations = []
        self.probes = {}
        self.stage = 'fresh' if case['fresh'] else 'det'

    def absorb(self, log):
        """consume new events: count calls, remember produced values"""
        for e in log[self.pos:]:
            if e[2] == 'call' and e[3] == self.stage:
                self.ncalls[e[4][0]] += 1
                if not self.case['fresh']:
                    self.last[e[4][0]] = self.expected_det(e[4][0])
            elif e[2] == 'fresh':
                i = e[4][0]
                self.last[i] = {'f': 'fresh', 'x': {'f': 'u0', 'x': {'src': i}},
                                'nonce': e[5]}
                if self.case.get('tuple'):
                    self.last[i] = ['__tuple__', self.last[i], ['m']]
        self.pos = len(log)

    def expected_det(self, i):
        v = {'f': 'det', 'x': {'f': 'u0', 'x': {'src': i}}}
        if self.case.get('nonevals') and i % 3 == 0:
            v = None
        return ['__tuple__', v, ['m']] if self.case.get('tuple') else v

    def bad(self, cls, sig, msg):
        if not self.violations:
            self.violations.append(hist.viol(cls, sig, msg))

    def access(self, i, v, before, via, stored_possible=True, uncertain=False):
        """one access to index i returned v (normalised); `before` = calls of i
        before the access."""
        new = self.ncalls[i] - before
        if i in self.unknown:
            self.unknown.discard(i)
            if new == 0:
                self.frozen[i] = v      # whatever was stored is now the frozen value
                return
            # nothing had been stored: an ordinary first computation
        if i in self.frozen:
            if self.was_low:
                self.probes['cache_hit_after_threshold'] = 1
            if new != 0:
                self.bad('recomputed_cached_example', 'recomputed_cached_example:' + via,
                         'index %d was computed and cached before (memory permitted) but the '
                         'upstream pipeline ran again (%d more calls) on access via %s'
                         % (i, new, via))
            elif v != self.frozen[i]:
                self.bad('cached_value_changed', 'cached_value_changed:' + via,
                         'index %d: access via %s returned %s, the value frozen at first '
                         'computation is %s' % (i, via, W.short(v, 90), W.short(self.frozen[i], 90)))
            return
        if i in self.maybe:
            if new == 0:
                if v != self.maybe[i]:
                    self.bad('cached_value_changed', 'cached_value_changed:' + via,
                             'index %d: access via %s returned %s without computing, but the '
                             'only value ever produced was %s'
                             % (i, via, W.short(v, 90), W.short(self.maybe[i], 90)))
                self.frozen[i] = self.maybe.pop(i)
                return
            self.maybe.pop(i)
        if new != 1:
            self.bad('wrong_number_of_computations', 'wrong_number_of_computations:' + via,
                     'index %d is not cached; the access via %s triggered %d upstream '
                     'computations instead of exactly 1' % (i, via, new))
            return
        if v != self.last.get(i):
            self.bad('returned_value_not_produced', 'returned_value_not_produced:' + via,
                     'index %d: access via %s returned %s but the pipeline just produced %s'
                     % (i, via, W.short(v, 90), W.short(self.last.get(i), 90)))
            return
        if self.low:
            self.probes['cache_miss_after_threshold'] = 1
        direct = via in ('index', 'negative_index', 'numpy_integer_index', 'key')
        if self.low and direct and not uncertain:
            # this very dataset object has seen the threshold crossed (it polls
            # the memory on a miss): it caches nothing from now on, whatever the
            # memory does later.  (Copies and prefetch workers poll on their own.)
            self.latched = True
        if uncertain or (self.was_low and not self.low):
            if getattr(self, 'latched', False) and direct and not uncertain:
                self.probes['miss_after_memory_recovered_not_cached'] = 1
            else:
                self.maybe[i] = v       # flapping / mid-iteration flip: either is fine
        elif not self.low:
            self.frozen[i] = v


def run(case):
    n = case['n']
    violations = []
    with warnings.catch_warnings(record=True):
        warnings.simplefilter('always')    # recorded, not printed; never 'ignore': dependencies inspect warnings
        saved = psutil.virtual_memory
        psutil.virtual_memory = _fake_virtual_memory
        Mem.available = 48 * GiB
        ctx = W.set_ctx(W.Ctx())
        try:
            with S.building():
                up = _upstream(case)
            m = Model(case)
            if case['eager']:
                out = _run_eager(case, up, ctx, m)
            else:
                kw = {} if case['keep'] is None else {'keep_mem_free': case['keep']}
                with S.building():
                    ds = up.cache(**kw)
                out = _run_lazy(case, ds, ctx, m)
        finally:
            psutil.virtual_memory = saved
            W.set_ctx(None)
    fired = out['fired']
    for mm in out.get('models', []):
        if mm is not m:
            m.probes.update(mm.probes)
            if mm.violations and not m.violations:
                m.violations = [dict(v, sig=v['sig'] + ':second_cache')
                                for v in mm.violations]
    nontrivial = bool(m.probes.get('cache_hit_after_threshold') or fired.get('mem_low')
                      or out['hits'])
    return hist.outcome(
        case, nontrivial=nontrivial, key=hist.hkey(case), violations=m.violations,
        fired=fired, probes=m.probes, stats={'ops': len(case['ops']), 'hits': out['hits']},
        sample={'case': case, 'frozen_indices': sorted(m.frozen),
                'calls_per_index': dict(m.ncalls)},
        digest_extra=[sorted(m.frozen.items()), sorted(m.ncalls.items()), out['trace']])


def _run_lazy(case, ds, ctx, m):
    n = case['n']
    thr = threshold(case['keep'])
    fired = collections.Counter()
    last_obj = None
    hits = 0
    trace = []
    held_copy = None

    def acc(i, getter, via):
        nonlocal last_obj, hits
        m.absorb(ctx.log)
        before = m.ncalls[i]
        was_frozen = i in m.frozen
        v = getter()
        m.absorb(ctx.log)
        last_obj = v
        nv = W.norm(v[1] if via in ('items',) else v)
        trace.append((via, i, nv))
        if was_frozen:
            hits += 1
        m.access(i, nv, before, via)

    def seq(indices, iterator, via, items=False):
        nonlocal last_obj, hits
        it = iter(iterator)
        for i in indices:
            m.absorb(ctx.log)
            before = m.ncalls[i]
            was_frozen = i in m.frozen
            try:
                v = next(it)
            except StopIteration:
                m.bad('iteration_too_short', 'iteration_too_short:' + via,
                      'iteration via %s ended before index %d' % (via, i))
                return
            m.absorb(ctx.log)
            last_obj = v
            if items:
                if v[0] != 'k%d' % i:
                    m.bad('wrong_key', 'wrong_key:' + via, 'items() paired index %d with key %r' % (i, v[0]))
                v = v[1]
            nv = W.norm(v)
            trace.append((via, i, nv))
            if was_frozen:
                hits += 1
            m.access(i, nv, before, via)
        it.close() if hasattr(it, 'close') else None

    held = None         # [iterator, next position, via]
    models = [m]
    for op, arg in case['ops']:
        if m.violations:
            break
        if op == 'it_open':
            if arg == 'items' and case['source'] != 'dict':
                arg = 'ds'
            src_ds = ds.copy() if arg == 'copy' else (ds.items() if arg == 'items' else ds)
            held = [iter(src_ds), 0, arg]
            fired['iterator_held_open'] += 1
        elif op == 'it_next':
            if held is not None and held[1] < n:
                i = held[1]
                held[1] += 1
                m.absorb(ctx.log)
                before = m.ncalls[i]
                was_frozen = i in m.frozen
                try:
                    v = next(held[0])
                except StopIteration:
                    m.bad('iteration_too_short', 'iteration_too_short:held_iterator',
                          'a held iterator ended before index %d' % i)
                    break
                m.absorb(ctx.log)
                last_obj = v
                if held[2] == 'items':
                    v = v[1]
                nv = W.norm(v)
                trace.append(('held_iterator', i, nv))
                if was_frozen:
                    hits += 1
                    m.probes['held_iterator_met_entry_cached_meanwhile'] = 1
                m.access(i, nv, before, 'held_iterator')
        elif op == 'concurrent_get':
            _concurrent_get(case, ds, ctx, m, arg[0], arg[1], fired, trace)
        elif op == 'second_cache':
            held = None
            with S.building():
                up2 = _upstream(case)
                ds = up2.cache(keep_mem_free='256 MiB')
            m = Model(case)
            m.pos = len(ctx.log)
            models.append(m)
            thr = 256 * 1024 ** 2
            fired['second_cache_after_threshold'] += 1
            m.probes['second_cache_created_after_first_crossed'] = 1
        elif op == 'mem_low':
            Mem.available = thr if arg == 'equal' else thr / 4
            m.low = True
            m.was_low = True
            fired['mem_low'] += 1
        elif op == 'get_drop':
            i_, mode_ = arg
            if not m.low and i_ not in m.frozen and i_ not in m.maybe and i_ not in m.unknown:
                def _hook(stage, ids, mode_=mode_, m=m, thr=thr):
                    Mem.available = thr if mode_ == 'equal' else thr / 4
                    m.low = True
                    m.was_low = True
                    fired['mem_low_during_load'] += 1
                    m.probes['memory_dropped_while_the_example_was_loaded'] = 1
                    ctx.on_call = None
                ctx.on_call = _hook
            try:
                acc(i_, lambda: ds[i_], 'index')
            finally:
                ctx.on_call = None
        elif op == 'mem_ok':
            Mem.available = 48 * GiB
            m.low = False
            fired['mem_recovered'] += 1
        elif op == 'get':
            acc(arg, lambda: ds[arg], 'index')
        elif op == 'get_oob':
            m.absorb(ctx.log)
            calls_before = sum(m.ncalls.values())
            try:
                v_ = ds[arg]
                m.bad('out_of_range_index_answered', 'out_of_range_index_answered',
                      'ds[%d] on a cache over %d examples returned %s instead of raising IndexError'
                      % (arg, n, W.short(W.norm(v_), 60)))
            except IndexError:
                m.probes['out_of_range_index_refused'] = 1
            except Exception as e_:
                m.bad('out_of_range_index_answered', 'out_of_range_index_wrong_error:%s' % type(e_).__name__,
                      'ds[%d] on a cache over %d examples raised %r instead of IndexError' % (arg, n, e_))
            m.absorb(ctx.log)
            if sum(m.ncalls.values()) != calls_before and not m.violations:
                m.bad('wrong_number_of_computations', 'wrong_number_of_computations:out_of_range',
                      'ds[%d] (out of range) ran the upstream pipeline' % arg)
        elif op == 'getneg':
            if arg in m.frozen:
                m.probes['negative_index_hits_positive_entry'] = 1
            acc(arg, lambda: ds[arg - n], 'negative_index')
        elif op == 'npget':
            import numpy as _np
            acc(arg, lambda: ds[_np.int64(arg) if arg % 2 else _np.int32(arg - n)],
                'numpy_integer_index')
        elif op == 'key':
            if arg in m.frozen:
                m.probes['key_hits_index_entry'] = 1
            acc(arg, lambda: ds['k%d' % arg], 'key')
        elif op == 'slice_iter':
            a, b = arg
            seq(range(a, b), ds[a:b], 'slice')
        elif op == 'iter':
            seq(range(n), ds, 'iteration')
        elif op == 'iter_k':
            seq(range(arg), ds, 'iteration')
        elif op == 'items_iter':
            seq(range(n), ds.items(), 'items', items=True)
        elif op in ('copy_get', 'fcopy_get'):
            cp = ds.copy(freeze=(op == 'fcopy_get'))
            if arg in m.frozen:
                m.probes['copy_shares_cache'] = 1
            acc(arg, lambda: cp[arg], 'copy')
        elif op == 'copy_iter':
            seq(range(n), ds.copy(), 'copy')
        elif op in ('prefetch1', 'prefetchw'):
            w, b, seed, flip = arg
            _prefetch_iteration(case, ds, ctx, m, w, b, seed, flip, thr, fired, trace)
        elif op == 'mutate':
            if last_obj is not None:
                _mutate(last_obj)
                fired['client_mutation'] += 1
                m.probes['mutation_then_reread'] = 1
    return {'fired': dict(fired), 'hits': hits, 'trace': trace, 'models': models}


def _concurrent_get(case, ds, ctx, m, i, seed, fired, trace):
    """Two client threads ask for the same index at the same time (thread
    simulator, pre-emption inside lazy_dataset/core.py).  The property judges
    sequences of accesses; for this overlap only the part that holds for any
    access is demanded: both get a value the pipeline produces for that index,
    a frozen value stays the frozen value, nobody gets an exception."""
    import threading
    m.absorb(ctx.log)
    before = m.ncalls[i]
    was_frozen = m.frozen.get(i)
    sim = S.Sim({'policy': 'random', 'seed': seed}, trace_files=[ldc.__file__])
    ctx.sim = sim
    sim.log = ctx._log
    sim.seq = ctx._seq
    got = []

    # with keys: one client (or both) asks by key
    by_key = [case['source'] == 'dict' and bool((seed >> b_) & 1) for b_ in (3, 4)]

    def client(c=0):
        try:
            got.append(('ok', W.norm(ds['k%d' % i] if by_key[c] else ds[i])))
        except Exception as e:
            got.append(('exc', '%s: %s' % (type(e).__name__, str(e)[:80])))

    try:
        with S.simulation(sim):
            try:
                ts = [threading.Thread(target=client, args=(c,)) for c in range(2)]
                for t in ts:
                    t.start()
                for t in ts:
                    t.join()
                sim.drain()
            except S.SimAbort:
                pass
    finally:
        ctx._seq = sim.seq
        ctx.sim = None
    m.probes['two_clients_same_index_at_once'] = 1
    if any(by_key):
        m.probes['concurrent_access_by_key'] = 1
    fired['concurrent_same_index'] += 1
    if sim.failure:
        m.bad('hang', 'hang:concurrent_same_index', 'two concurrent accesses: %s' % sim.failure)
        return
    produced = set()
    # every value produced for i so far (fresh: any nonce of a 'fresh' event)
    for e in ctx.log:
        if e[2] == 'fresh' and e[4][0] == i:
            v = {'f': 'fresh', 'x': {'f': 'u0', 'x': {'src': i}}, 'nonce': e[5]}
            produced.add(repr(['__tuple__', v, ['m']] if case.get('tuple') else v))
    m.absorb(ctx.log)
    for kind, v in got:
        trace.append(('concurrent', i, v))
        if kind == 'exc':
            m.bad('access_raised', 'access_raised:concurrent_same_index',
                  'one of two concurrent accesses to index %d raised %s' % (i, v))
            return
        if was_frozen is not None:
            if v != was_frozen:
                m.bad('cached_value_changed', 'cached_value_changed:concurrent_same_index',
                      'index %d is frozen as %s but a concurrent access returned %s'
                      % (i, W.short(was_frozen, 80), W.short(v, 80)))
                return
        elif case['fresh']:
            if repr(v) not in produced:
                m.bad('returned_value_not_produced', 'returned_value_not_produced:concurrent_same_index',
                      'a concurrent access to index %d returned %s, which the pipeline never '
                      'produced' % (i, W.short(v, 80)))
                return
        elif v != m.expected_det(i):
            m.bad('returned_value_not_produced', 'returned_value_not_produced:concurrent_same_index',
                  'a concurrent access to index %d returned %s' % (i, W.short(v, 80)))
            return
    if was_frozen is not None and m.ncalls[i] != before:
        m.bad('recomputed_cached_example', 'recomputed_cached_example:concurrent_same_index',
              'index %d was cached but two concurrent accesses ran the upstream pipeline again' % i)
        return
    if was_frozen is None:
        # either of the two values may have been stored (or none, if memory is
        # low): the next sequential access decides
        m.maybe.pop(i, None)
        m.unknown.add(i)


def _upstream(case):
    n = case['n']
    if case['source'] == 'dict':
        src = lazy_dataset.new({'k%d' % i: {'src': i} for i in range(n)})
    else:
        src = lazy_dataset.new([{'src': i} for i in range(n)])
    up = src.map(W.MapFn('u0')).map(
        FreshLogFn('fresh') if case['fresh'] else
        (NoneDetFn('det') if case.get('nonevals') else W.MapFn('det')))
    if case.get('tuple'):
        up = up.map(TupleFn())
    return up


def _prefetch_iteration(case, ds, ctx, m, w, b, seed, flip, thr, fired, trace):
    """Iterate ds.prefetch(w, b) completely under the thread simulator; the
    delivered examples are accesses to indices 0..n-1 in order."""
    n = case['n']
    m.absorb(ctx.log)
    before = dict(m.ncalls)
    frozen_before = set(m.frozen)
    sim = S.Sim({'policy': 'random', 'seed': seed}, trace_files=[ldp.__file__, ldc.__file__])
    ctx.sim = sim
    sim.log = ctx._log           # keep one continuous event log
    sim.seq = ctx._seq
    out = []
    flipped = False
    try:
        with S.simulation(sim):
            try:
                pf = ds.prefetch(w, b)
                k = 0
                it = iter(pf)
                while True:
                    if flip is not None and k == flip and not m.low:
                        Mem.available = thr / 4
                        flipped = True
                    try:
                        out.append(next(it))
                    except StopIteration:
                        break
                    k += 1
                sim.drain()
            except S.SimAbort:
                pass
    finally:
        ctx._seq = sim.seq
        ctx.sim = None
    if sim.failure:
        m.bad('hang', 'hang:prefetch_over_cache', 'prefetch over the cache: %s' % sim.failure)
        return
    if flipped:
        m.low = True
        m.was_low = True
        fired['mem_low_inside_prefetch'] += 1
        m.probes['threshold_crossed_inside_prefetch_iteration'] = 1
    fired['prefetch_access'] += 1
    m.absorb(ctx.log)
    if len(out) != n:
        m.bad('iteration_too_short', 'iteration_too_short:prefetch',
              'prefetch over the cache delivered %d of %d examples' % (len(out), n))
        return
    # evaluate the accesses in index order against the model; calls made by
    # the workers are attributed to their index
    after = dict(m.ncalls)
    for i, v in enumerate(out):
        nv = W.norm(v)
        trace.append(('prefetch', i, nv))
        cnt_before = before.get(i, 0)
        m.ncalls[i] = after.get(i, 0)
        if i not in frozen_before and i not in m.maybe and after.get(i, 0) - cnt_before == 1:
            m.probes['prefetch_worker_filled_cache'] = 1
        m.access(i, nv, cnt_before, 'prefetch', uncertain=flipped)
    m.ncalls.update({})


class _AlwaysTrue:
    def __call__(self, x):
        return True


def _run_eager_dup(case, up, ctx, m):
    """eager cache of a dataset with duplicate keys and without a length
    (concatenated with itself, then lazily filtered): content and order of the
    snapshot are those of one iteration at call time"""
    n = case['n']
    fired = collections.Counter()
    trace = []
    m.absorb(ctx.log)
    pos0 = len(ctx.log)
    src_ds = up.concatenate(up).filter(_AlwaysTrue(), lazy=True)
    ds = src_ds.cache(lazy=False)
    m.absorb(ctx.log)
    # the values in the order in which they were computed at call time
    snapshot = []
    for e in ctx.log[pos0:]:
        if case['fresh'] and e[2] == 'fresh':
            v = {'f': 'fresh', 'x': {'f': 'u0', 'x': {'src': e[4][0]}}, 'nonce': e[5]}
            snapshot.append(['__tuple__', v, ['m']] if case.get('tuple') else v)
        elif not case['fresh'] and e[2] == 'call' and e[3] == 'det':
            snapshot.append(m.expected_det(e[4][0]))
    if [W.src_ids(x)[0] if W.src_ids(x) else None for x in snapshot] != \
            [i if not (case.get('nonevals') and i % 3 == 0) else None for i in list(range(n)) * 2]:
        m.bad('eager_cache_call_count', 'eager_cache_call_count:duplicate_keys',
              'cache(lazy=False) of a 2x%d dataset computed %d examples' % (n, len(snapshot)))
    calls_at_build = sum(m.ncalls.values())
    try:
        got_len = len(ds)
    except TypeError:
        got_len = None
    if got_len != 2 * n:
        m.bad('eager_snapshot_changed', 'eager_snapshot_changed:length:duplicate_keys',
              'eager cache of %d examples (keys occur twice) has length %r' % (2 * n, got_len))
    hits = 0
    for op, arg in case['ops']:
        if m.violations:
            break
        if op in ('get', 'getneg', 'npget') and got_len:
            j = (arg + (n if op != 'get' else 0)) % got_len
            v = W.norm(ds[j])
            hits += 1
            trace.append(('index', j, v))
            if v != snapshot[j]:
                m.bad('eager_snapshot_changed', 'eager_snapshot_changed:index:duplicate_keys',
                      'position %d of the eager cache is %s, snapshot at call time %s'
                      % (j, W.short(v, 80), W.short(snapshot[j], 80)))
        elif op in ('iter', 'iter_k'):
            got = [W.norm(x) for x in ds]
            hits += 1
            if got != snapshot:
                m.bad('eager_snapshot_changed', 'eager_snapshot_changed:iteration:duplicate_keys',
                      'the eager cache iterates %s, snapshot at call time %s'
                      % (W.short(got, 120), W.short(snapshot, 120)))
        m.absorb(ctx.log)
        if sum(m.ncalls.values()) != calls_at_build:
            m.bad('eager_cache_recomputed', 'eager_cache_recomputed',
                  'an access to the eager cache ran the upstream pipeline again')
    fired['eager'] += 1
    fired['eager_duplicate_keys_without_length'] += 1
    m.probes['eager_cache_of_duplicate_keys_without_length'] = 1
    return {'fired': dict(fired), 'hits': hits, 'trace': trace}


def _run_eager_raw(case, ctx, m):
    """eager cache applied directly to a raw ListDataset / DictDataset (what
    `from_file(..., immutable_warranty=None)` returns): a snapshot of content and
    order at call time, independent of the container it was taken from"""
    n = case['n']
    fired = collections.Counter()
    trace = []
    exs = [{'src': i, 'l': [i]} for i in range(n)]
    if case['source'] == 'dict':
        container = {'k%d' % i: e for i, e in enumerate(exs)}
        raw = ldc.DictDataset(container)
    else:
        container = list(exs)
        raw = ldc.ListDataset(container)
    ds = raw.cache(lazy=False)
    snapshot = [W.norm({'src': i, 'l': [i]}) for i in range(n)]
    hits = 0
    last = None
    for op, arg in case['ops']:
        if m.violations:
            break
        if op in ('get', 'getneg', 'npget', 'key'):
            i = arg if not isinstance(arg, (list, tuple)) else arg[0]
            last = ds['k%d' % i] if (op == 'key' and case['source'] == 'dict') else ds[i]
            got = [(i, last)]
        elif op in ('iter', 'iter_k', 'items_iter', 'slice_iter'):
            got = list(enumerate(ds))
            if len(got) != n:
                m.bad('eager_snapshot_changed', 'eager_snapshot_changed:length:raw_container',
                      'the eager cache of %d examples iterates %d' % (n, len(got)))
                break
            last = got[-1][1] if got else last
        elif op == 'mutate':
            # the client damages what it was handed AND the container the
            # snapshot was taken from
            if last is not None:
                _mutate(last)
                last['l'].append('MUT') if isinstance(last, dict) and 'l' in last else None
            if case['source'] == 'dict':
                container['k0']['l'].append('SRC')
                container['extra%d' % len(container)] = {'src': 99}
            else:
                container[0]['l'].append('SRC')
                container.append({'src': 99})
            fired['client_mutation'] += 1
            m.probes['mutation_then_reread'] = 1
            continue
        else:
            continue
        for i, v in got:
            hits += 1
            nv = W.norm(v)
            trace.append(('raw', i, nv))
            if nv != snapshot[i]:
                m.bad('eager_snapshot_changed', 'eager_snapshot_changed:raw_container',
                      'eager cache of a raw %s returned %s for index %d, snapshot at call time %s'
                      % (type(raw).__name__, W.short(nv, 90), i, W.short(snapshot[i], 90)))
                break
    fired['eager'] += 1
    fired['eager_raw_container'] += 1
    m.probes['eager_cache_of_a_raw_container_dataset'] = 1
    return {'fired': dict(fired), 'hits': hits, 'trace': trace}


def _run_eager(case, up, ctx, m):
    if case.get('eager_raw'):
        return _run_eager_raw(case, ctx, m)
    if case.get('eager_dup'):
        return _run_eager_dup(case, up, ctx, m)
    n = case['n']
    fired = collections.Counter()
    trace = []
    m.absorb(ctx.log)
    ds = up.cache(lazy=False)
    m.absorb(ctx.log)
    snapshot = {}
    for i in range(n):
        if m.ncalls[i] != 1:
            m.bad('eager_cache_call_count', 'eager_cache_call_count',
                  'cache(lazy=False) computed index %d %d times' % (i, m.ncalls[i]))
        snapshot[i] = m.last.get(i)
    calls_at_build = sum(m.ncalls.values())
    last_obj = None
    hits = 0

    def check(i, v, via):
        nonlocal hits
        hits += 1
        nv = W.norm(v)
        trace.append((via, i, nv))
        if nv != snapshot[i]:
            m.bad('eager_snapshot_changed', 'eager_snapshot_changed:' + via,
                  'eager cache returned %s for index %d via %s, snapshot at call time was %s'
                  % (W.short(nv, 90), i, via, W.short(snapshot[i], 90)))

    for op, arg in case['ops']:
        if m.violations:
            break
        if op == 'upstream_iter':
            list(up)
            m.absorb(ctx.log)
            calls_at_build = sum(m.ncalls.values())
            fired['upstream_changed_after_snapshot'] += 1
            continue
        if op == 'get':
            last_obj = ds[arg]
            check(arg, last_obj, 'index')
        elif op == 'getneg':
            last_obj = ds[arg - n]
            check(arg, last_obj, 'negative_index')
        elif op == 'key':
            last_obj = ds['k%d' % arg]
            check(arg, last_obj, 'key')
        elif op == 'slice_iter':
            a, b = arg
            for i, v in zip(range(a, b), ds[a:b]):
                last_obj = v
                check(i, v, 'slice')
        elif op in ('iter', 'iter_k'):
            got = list(ds) if op == 'iter' else [x for _, x in zip(range(arg), ds)]
            if op == 'iter' and len(got) != n:
                m.bad('eager_snapshot_changed', 'eager_snapshot_changed:length',
                      'eager cache iterates %d examples, snapshot has %d' % (len(got), n))
            for i, v in enumerate(got):
                last_obj = v
                check(i, v, 'iteration')
        elif op == 'items_iter':
            for i, (k, v) in enumerate(ds.items()):
                last_obj = v
                check(i, v, 'items')
        elif op == 'mutate' and last_obj is not None:
            _mutate(last_obj)
            fired['client_mutation'] += 1
            m.probes['mutation_then_reread'] = 1
        m.absorb(ctx.log)
        if sum(m.ncalls.values()) != calls_at_build:
            m.bad('eager_cache_recomputed', 'eager_cache_recomputed',
                  'an access to the eager cache ran the upstream pipeline again')
    fired['eager'] += 1
    return {'fired': dict(fired), 'hits': hits, 'trace': trace}


def shrink(case):
    yield from hist.shrink_ops(case, 'ops')
    if case['n'] > 1:
        c = hist.clone(case)
        c['n'] -= 1
        n = c['n']
        ops = []
        for op, arg in c['ops']:
            if op in ('get', 'getneg', 'npget', 'key', 'copy_get', 'fcopy_get') and arg >= n:
                continue
            if op == 'slice_iter':
                arg = [min(arg[0], n), min(arg[1], n)]
            if op == 'iter_k':
                arg = min(arg, n)
            if op in ('prefetch1', 'prefetchw') and arg[3] is not None:
                arg = arg[:3] + [min(arg[3], n)]
            ops.append([op, arg])
        c['ops'] = ops
        yield c
    for k, v in (('fresh', False), ('flap', False)):
        if case[k] != v:
            c = hist.clone(case)
            c[k] = v
            yield c
