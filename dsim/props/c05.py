"""C05 - stopping a prefetching iteration anywhere terminates cleanly."""
from .. import pargen, parrun, parprops
from ..parprops import COMPONENTS, ASSUMPTIONS  # noqa

PROP = 'C05'
LEVEL = 'fault_enumeration'
RULE = ('family = one generated pipeline with a prefetch / parallel-map stage; '
        'ALL consumer stop points k in 0..n(+1) are enumerated for a sampled stop '
        'kind (close / drop / consumer exception / reference cycle + scheduled '
        'gc.collect / exhaustion / pipeline error), each under a sampled schedule '
        'policy; half of the families fill the buffer first (workers starved) and '
        'give the consumer priority from the stop on (exact cancellation oracle). '
        'A run is non-trivial if it had at least one real context switch; distinct '
        '= distinct (pipeline, stop kind, k, fault plan, schedule signature), the '
        'signature hashing (from thread, to thread, source line) of every switch. '
        'Every 40th family is systematic instead: a tiny workload (n <= 3, workers <= 2, '
        'buffer <= 2) with one stop point, run under the non-preemptive baseline schedule '
        'and under ALL schedules that differ from it by exactly one forced context '
        'switch (or fired timeout) at any decision point; in the thorough tier every '
        '2000th family enumerates all schedules with at most TWO forced switches of a '
        'n=2 workload.')
PROBES = ['all_single_preemption_schedules_of_a_tiny_workload',
          'future_cancelled_while_pending', 'user_code_between_stop_and_return',
          'stop_before_first_example']
BUDGET = {
    'quick': {'families': 4200, 'wall_cap': 420, 'shrink_s': 15},
    'thorough': {'families': 40000, 'wall_cap': 5400, 'shrink_s': 40},
}

STRICT_SCHED = {'policy': 'phased', 'params': {'phases': {
    'run': {'policy': 'starve', 'victim': 'worker', 'p': 0.7},
    'stop': {'policy': 'prio', 'role': 'consumer'},
    'default': {'policy': 'random'}}}}


def gen_systematic(rng, two=False):
    """Tiny workload, one stop point, ALL schedules with one forced switch
    (two=True, thorough tier: with at most two, for the very smallest)."""
    desc = parprops.tiny_desc(rng)
    if two:
        desc = {'source': {'kind': 'list', 'n': 2}, 'stages': [
            {'op': 'map', 'id': 'u0'},
            rng.choice([{'op': 'prefetch', 'w': 1, 'b': 1, 'backend': 't'},
                        {'op': 'prefetch', 'w': 2, 'b': 2, 'backend': 't'},
                        {'op': 'parmap', 'id': 'p', 'w': 1, 'b': 1, 'backend': 't'}])]}
    n = desc['source']['n']
    kind = rng.choice(['close', 'drop', 'cycle_gc', 'exhaust', 'throw'])
    base = {'desc': desc, 'epochs': 1, 'faults': [], 'cost_seed': None, 'think_seed': 0,
            'think_max': 0, 'trace': ['parallel_utils'], 'systematic': 1,
            'stop': {'kind': 'exhaust'} if kind == 'exhaust' else
            {'kind': kind, 'k': rng.randrange(0, n + 1), 'delay': 1}}
    if rng.random() < 0.3:
        base['faults'] = [{'stage': 'u0', 'pos': rng.randrange(n),
                           'exc': rng.choice(['value', 'base'])}]
    if not two and rng.random() < 0.5:
        base['rel'] = 1     # decision points also right after every lock release
    if two:
        base['systematic'] = 2
        return parprops.two_preemption_cases(base, parrun.run_par_case)
    return parprops.one_preemption_cases(base, parrun.run_par_case)


def copyable(desc):
    """may the consumer iterate a copy() instead?  Not with a user-written source /
    stage (no copy()), and not with a tiling above a per-epoch reshuffle (recorded
    finding of C13: the copy of such a pipeline iterates in another order)"""
    ops = [s['op'] for s in desc['stages']]
    return desc['source'].get('kind') != 'user' and 'user' not in ops \
        and 'userstage' not in ops and 'tile' not in ops and 'cycle' not in ops


def gen(rng, tier, index):
    if tier == 'thorough' and index % 2000 == 1999:
        return gen_systematic(rng, two=True)
    if index % 40 == 39:
        return gen_systematic(rng)
    strict = rng.random() < 0.5
    backends = ('t',) if rng.random() < 0.6 else tuple(pargen.BACKENDS_POOL)
    user_src = (not strict) and rng.random() < 0.06
    # a user-written stage right before the parallel stage whose iterator takes a
    # while to clean up, or is a plain iterator object (no close / throw)
    user_var = None if user_src or rng.random() >= 0.15 else \
        rng.choice([{'cleanup': rng.choice([3, 50])}, {'plain_iter': True}])
    desc, a = pargen.gen_desc(
        rng, max_n=8, simple=strict, user_stage_p=1.0 if (user_src or user_var) else 0.0,
        par_kw=dict(backends=backends, max_extra_b=2,
                    catch_p=0.0 if strict else 0.15))
    if user_var:
        for s_ in desc['stages']:
            if s_['op'] == 'userstage':
                s_.update(user_var)
    n = desc['source']['n']
    nout = len(a.elems) if a.elems is not None else (a.n if a.n is not None else n)
    kind = rng.choice(['close', 'close', 'drop', 'exc', 'cycle_gc',
                       'throw' if not strict else 'close'])
    faults = []
    if not strict and n and rng.random() < 0.3:
        stages = [s['id'] for s in desc['stages'] if 'id' in s]
        faults = [{'stage': rng.choice(stages), 'pos': rng.randrange(n),
                   'exc': rng.choice(['value', 'filter', 'base', 'key', 'index', 'timeout', 'stopiter'])}]
    pst_ = desc['stages'][pargen.par_index(desc)]
    if user_src and (pst_['op'] == 'parmap' or not pargen.is_pool(pst_)):
        # setting up the iteration over the user's dataset fails: iter() itself raises
        faults = [{'stage': 'src_iter', 'pos': 0, 'exc': rng.choice(['value', 'base', 'key'])}]
    trace = ['parallel_utils', 'core'] if rng.random() < 0.3 else ['parallel_utils']
    # key iteration: the worker then iterates a generator object, not a dataset
    pi_ = pargen.par_index(desc)
    pre = pargen.abs_eval({'source': desc['source'], 'stages': desc['stages'][:pi_]})
    last = desc['stages'][pi_]
    items = bool(pre is not None and pre.items and pi_ == len(desc['stages']) - 1
                 and (last['op'] == 'parmap' or not pargen.is_pool(last))
                 and not last.get('catch') and rng.random() < 0.5)
    via_copy = copyable(desc) and rng.random() < 0.12
    cases = []
    ks = list(range(0, nout + 2)) + [None]
    for k in ks:
        sched = dict(STRICT_SCHED, seed=rng.randrange(1 << 30)) if strict \
            else pargen.gen_sched(rng)
        c = {'desc': desc, 'sched': sched, 'epochs': 1,
             'stop': {'kind': 'exhaust'} if k is None else
             {'kind': kind, 'k': k, 'delay': rng.randrange(0, 6)},
             'faults': faults, 'cost_seed': rng.randrange(1000),
             'think_seed': rng.randrange(1000),
             'think_max': rng.choice([0, 0, 2, 6]), 'trace': trace}
        if strict and k is not None:
            c['strict_cancel'] = True
        if items:
            c['items'] = True
        if via_copy:
            c['via_copy'] = True
        cases.append(c)
    return cases


def run(case):
    res = parrun.run_par_case(case)
    out = parprops.base_outcome(case, res)
    if case.get('systematic') == 2:
        out['fired']['systematic_two_preemptions'] = 1
    if case.get('systematic'):
        out['fired']['systematic_one_preemption'] = 1
        out['probes']['all_single_preemption_schedules_of_a_tiny_workload'] = 1
    if not parprops.check_failure(case, res, out):
        parprops.check_clean_stop(case, res, out)
    return out


shrink = parprops.shrink_par
