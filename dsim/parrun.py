"""Executor for 'par' cases: one pipeline with a prefetch / parallel-map stage,
iterated by a scripted consumer under the thread simulator, next to its
sequential reference.  Returns a plain record (history + observations); the
property modules apply their oracles to it.
"""
import gc
import zlib

import lazy_dataset
from lazy_dataset import core as ldc
from lazy_dataset import parallel_utils as ldp

from . import sim as S
from . import stubs
from . import workload as W

TRACE_FILES = {
    'parallel_utils': ldp.__file__,
    'core': ldc.__file__,
}
REFUSALS = (ldc.ItemsNotDefined, NotImplementedError)


def _think(seed, k, maxv):
    if not maxv:
        return 0
    return zlib.crc32(('%s:think:%s' % (seed, k)).encode()) % (maxv + 1)


def run_reference(case):
    """Sequential meaning of the case: list of epochs, each
    {'out': [...], 'end': 'exhausted'|'error'|'refused', 'exc': (kind,args)}."""
    ctx = W.set_ctx(W.Ctx(sim=None, faults=case.get('faults')))
    ref = {'epochs': [], 'len': None, 'build_error': None}
    try:
        ds = W.build(case['desc'], parallel=False)
        if case.get('items'):
            ds = ds.items()
    except Exception as e:
        ref['build_error'] = type(e).__name__
        return ref, ctx
    try:
        ref['len'] = len(ds)
    except TypeError:
        ref['len'] = 'TypeError'
    except Exception as e:
        ref['len'] = type(e).__name__
    ctx.armed = True
    take = case.get('take')
    for ep in range(case.get('epochs', 1)):
        out = []
        rec = {'out': out, 'end': 'exhausted', 'exc': None}
        try:
            it = iter(ds)
            while True:
                # like the scripted consumer: element take+1 is never requested
                if take is not None and len(out) >= take:
                    rec['end'] = 'stopped'
                    W.close_iter(it)
                    break
                try:
                    x = next(it)
                except StopIteration:
                    break
                out.append(W.norm(x))
        except REFUSALS as e:
            rec['end'] = 'refused'
            rec['exc'] = (type(e).__name__,)
        except BaseException as e:
            rec['end'] = 'error'
            rec['exc'] = (W.exc_kind_of(e), list(W.norm(e.args)))
        ref['epochs'].append(rec)
        if rec['end'] != 'exhausted':
            break
    ref['ncalls'] = sum(1 for e in ctx.log if e[2] == 'call')
    return ref, ctx


def _consume(sim, ctx, ds, case, rec):
    """The scripted consumer (runs as simulated thread T0)."""
    stop = case.get('stop') or {'kind': 'exhaust'}
    if case.get('take') is not None:
        stop = {'kind': 'close', 'k': case['take']}
    kind = stop['kind']
    k_stop = stop.get('k', 0)
    think_seed = case.get('think_seed', 0)
    think_max = case.get('think_max', 0)
    out = rec['out']
    sim.phase = case.get('start_phase', 'run')
    it = iter(ds)
    ctx.event('iter')
    k = 0
    holder = None
    try:
        while True:
            t = _think(think_seed, k, think_max)
            for _ in range(t):
                sim.yield_point('think')
            if kind != 'exhaust' and k == k_stop:
                sim.phase = 'stop'
                ctx.event('stop', kind, k)
                if kind == 'close':
                    W.close_iter(it)
                elif kind == 'throw':
                    # an exception raised inside the suspended iterator (what a
                    # generator further down a `yield from` chain, or a signal
                    # handler, does): it must come back after a clean shutdown
                    try:
                        it.throw(W.ConsumerError('thrown into the iterator'))
                    except W.ConsumerError:
                        pass
                    except StopIteration:
                        pass
                elif kind in ('drop', 'exc'):
                    # 'exc': the consumer body raised; unwinding drops the
                    # iterator exactly like del (refcounting), see driver.
                    it = None
                elif kind == 'cycle_gc':
                    holder = [it]
                    holder.append(holder)
                    it = None
                    holder = None
                    for _ in range(stop.get('delay', 3)):
                        sim.yield_point('think')
                    ctx.event('gc')
                    gc.collect()
                rec['end'] = 'stopped'
                break
            try:
                x = next(it)
            except StopIteration:
                ctx.event('exhausted')
                rec['end'] = 'exhausted'
                break
            ctx.event('deliver', k)
            out.append(W.norm(x))
            k += 1
    finally:
        it = None
        holder = None
    ctx.event('returned')


def run_par_case(case):
    """Run one case.  Deterministic function of (case, code under test)."""
    gc.collect()
    ref, refctx = run_reference(case)
    desc = case['desc']
    trace = [TRACE_FILES[t] for t in case.get('trace', ['parallel_utils'])]
    sim = S.Sim(case['sched'], trace_files=trace,
                max_steps=case.get('max_steps', 200000))
    ctx = W.set_ctx(W.Ctx(sim=sim, faults=case.get('faults'),
                          cost_seed=case.get('cost_seed')))
    res = {'ref': ref, 'ref_log': refctx.log, 'epochs': [], 'len': None,
           'build_error': None, 'failure': None}
    patches = stubs.future_logging_patches()
    backends = {st.get('backend', 't') for d_ in (desc, case.get('prelude') or {'stages': []})
                for st in d_['stages'] if st['op'] in ('prefetch', 'parmap')}
    if backends - {'t', False}:
        patches += stubs.pool_patches()
    try:
        ds = W.build(desc, parallel=True)
        if case.get('items'):
            ds = ds.items()
        if case.get('via_copy'):
            # the consumer works on a copy of the freshly built pipeline (as an
            # outer stage, a profiler or a second client would): a copy must
            # behave like the pipeline it was taken from
            with S.building():
                ds = ds.copy()
    except Exception as e:
        res['build_error'] = type(e).__name__
        ds = None
    if ds is not None:
        try:
            res['len'] = len(ds)
        except TypeError:
            res['len'] = 'TypeError'
        except Exception as e:
            res['len'] = type(e).__name__
        ctx.event('built')
        ctx.armed = True
        with S.simulation(sim, extra_patches=patches):
            try:
                if case.get('prelude'):
                    # another pipeline with the same parallel configuration is
                    # used (and dropped) first: state that a stage keeps beyond
                    # one iteration (memoised payloads, class-level flags, pools)
                    # must not leak into the pipeline under observation
                    try:
                        pre = W.build(case['prelude'], parallel=True)
                        for _x in pre:
                            pass
                    except S.SimAbort:
                        raise
                    except Exception as e:
                        ctx.event('prelude_error', type(e).__name__)
                    pre = None
                    _x = None
                    sim.drain()
                    ctx.event('prelude_done')
                for ep in range(case.get('epochs', 1)):
                    rec = {'out': [], 'end': None, 'exc': None, 'exc_same': None,
                           'alive_at_return': None}
                    res['epochs'].append(rec)
                    ctx.event('epoch', ep)
                    try:
                        _consume(sim, ctx, ds, case, rec)
                    except S.SimAbort:
                        raise
                    except REFUSALS as e:
                        rec['end'] = 'refused'
                        rec['exc'] = (type(e).__name__,)
                        ctx.event('returned')
                    except BaseException as e:
                        rec['end'] = 'error'
                        rec['exc'] = (W.exc_kind_of(e), list(W.norm(e.args)))
                        rec['exc_same'] = any(e is r for r in ctx.raised)
                        ctx.event('error', rec['exc'][0])
                        e = None
                        ctx.event('returned')
                    rec['alive_at_return'] = [t.name for t in sim.unfinished()]
                    sim.drain()
                    ctx.event('drained')
                    if rec['end'] != 'exhausted':
                        break
            except S.SimAbort:
                res['failure'] = {'why': sim.failure, 'phase': sim.failure_phase,
                                  'blocked': sim.blocked_report}
        if sim.failure and res['failure'] is None:
            res['failure'] = {'why': sim.failure, 'phase': sim.failure_phase,
                              'blocked': sim.blocked_report}
    ds = None
    res['log'] = sim.log
    res['fired'] = dict(ctx.fired)
    res['stats'] = {
        'steps': sim.steps, 'switches': sim.switches, 'decisions': sim.decisions,
        'threads': len(sim.threads), 'now': sim.now, 'sig': sim.signature(),
        'pairs': sorted(sim.pairs), 'clock_jumps': sim.clock_jumps,
        'timeouts_fired': sim.timeouts_fired,
    }
    res['main_blocks'] = list(sim.main_blocks)
    res['main_yields'] = list(sim.main_yields)
    res['choices'] = sim.choices
    W.set_ctx(None)
    return res


# ------------------------------------------------------------- analysis
def split_epochs(log):
    eps = []
    cur = None
    for e in log:
        if e[2] == 'epoch':
            cur = []
            eps.append(cur)
        elif cur is not None:
            cur.append(e)
    return eps


def digest_of(res):
    import hashlib
    import json
    h = hashlib.sha256()
    h.update(json.dumps([res['epochs'], res['len'], res['failure'],
                         res['choices'], res['stats']['steps']],
                        sort_keys=True, default=str).encode())
    h.update(repr(res['log']).encode())
    return h.hexdigest()[:16]
