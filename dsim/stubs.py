"""In-simulation stand-ins for the OS process pools (DESIGN.md 2.4).

The repository's per-backend adapters (submit / result / terminate closures in
lazy_parallel_map) run for real against these stubs.  Each stub executes jobs on
simulated threads and pushes callable, arguments, results and exceptions through
the serialiser the real pool would use, so identity is lost exactly as across a
process boundary and unpicklable callables fail loudly.
"""
import pickle
import concurrent.futures as cf
import concurrent.futures._base as cfb

from . import sim as S


def _roundtrip_exc(ser, e):
    try:
        return ser.loads(ser.dumps(e))
    except Exception:
        return RuntimeError('unpicklable exception %s' % type(e).__name__)


class StubProcessPoolExecutor(cf.ThreadPoolExecutor):
    """concurrent.futures.ProcessPoolExecutor stand-in (concurrent_mp, dill_mp)."""
    _ser = pickle

    def submit(self, fn, /, *args, **kwargs):
        ser = self._ser
        payload = ser.dumps((fn, args, kwargs))

        def run(payload=payload):
            f, a, k = ser.loads(payload)
            try:
                return ser.loads(ser.dumps(f(*a, **k)))
            except S.SimAbort:
                raise
            except BaseException as e:
                raise _roundtrip_exc(ser, e) from None
        return super().submit(run)


class _AsyncResult:
    def __init__(self, fut):
        self.fut = fut

    def get(self, timeout=None):
        return self.fut.result(timeout)

    def ready(self):
        return self.fut.done()


class StubMultiprocessingPool:
    """multiprocessing.Pool stand-in: apply_async / terminate / context manager
    whose exit terminates (pending jobs are discarded)."""
    _ser = pickle

    def __init__(self, processes=None, *a, **k):
        self._ex = cf.ThreadPoolExecutor(processes or 1)
        self._jobs = []
        self.terminated = False

    def apply_async(self, func, args=(), kwds={}):
        if self.terminated:
            raise ValueError('Pool not running')
        ser = self._ser
        payload = ser.dumps((func, tuple(args), dict(kwds)))

        def run():
            f, a, k = ser.loads(payload)
            try:
                return ser.loads(ser.dumps(f(*a, **k)))
            except S.SimAbort:
                raise
            except BaseException as e:
                raise _roundtrip_exc(ser, e) from None
        fut = self._ex.submit(run)
        self._jobs.append(fut)
        return _AsyncResult(fut)

    def imap(self, func, iterable, chunksize=1):
        jobs = [self.apply_async(func, (x,)) for x in iterable]   # eager, like the feeder
        for j in jobs:
            yield j.get()

    def imap_unordered(self, func, iterable, chunksize=1):
        return self.imap(func, iterable, chunksize)

    def map(self, func, iterable, chunksize=None):
        return list(self.imap(func, iterable))

    def terminate(self):
        self.terminated = True
        for j in self._jobs:
            j.cancel()
        self._ex.shutdown(wait=True)

    def close(self):
        self.terminated = True

    def join(self):
        self._ex.shutdown(wait=True)

    def __enter__(self):
        return self

    def __exit__(self, *a):
        self.terminate()


def _dill():
    import dill
    return dill


class StubPathosPool(StubMultiprocessingPool):
    """pathos.multiprocessing.ProcessPool stand-in: apipe / terminate; __exit__
    is a no-op exactly as in pathos 0.3.5 (the pool is kept in a cache)."""

    def __init__(self, nodes=None, *a, **k):
        super().__init__(nodes)
        self._ser = _dill()

    def apipe(self, f, *args, **kwds):
        return self.apply_async(f, args, kwds)

    def __exit__(self, *a):
        # pathos leaves the pool running; to keep the simulated run finite the
        # stub still lets already started jobs finish on drain.
        self._ex.shutdown(wait=False)
        return None


def pool_patches():
    """(object, attribute, value) triples for sim.simulation(extra_patches=)."""
    import multiprocessing
    import pathos.multiprocessing as pm
    return [
        (cf, 'ProcessPoolExecutor', StubProcessPoolExecutor),
        (multiprocessing, 'Pool', StubMultiprocessingPool),
        (pm, 'ProcessPool', StubPathosPool),
    ]


def future_logging_patches():
    """Log Future state transitions (RUNNING / CANCELLED) as simulator events.
    Used by C05's cancellation oracle; a stdlib seam, not a repository hook."""
    orig_run = cfb.Future.set_running_or_notify_cancel
    orig_cancel = cfb.Future.cancel

    def set_running_or_notify_cancel(self):
        r = orig_run(self)
        sim = S.SIM
        if sim is not None:
            sim.event('fut_running' if r else 'fut_skipped')
        return r

    def cancel(self):
        r = orig_cancel(self)
        sim = S.SIM
        if sim is not None:
            sim.event('fut_cancel', bool(r))
        return r

    return [
        (cfb.Future, 'set_running_or_notify_cancel', set_running_or_notify_cancel),
        (cfb.Future, 'cancel', cancel),
    ]
